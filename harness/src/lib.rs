pub mod session;
pub mod val;

use serde_json::Value as J;

/// Parse one line of behaviour input: either a JSON array, or a TLC `<<"REPLAY", "<json>">>` line.
pub fn parse_behaviour_line(line: &str) -> Option<Vec<J>> {
    let line = line.trim();
    if line.starts_with('[') {
        return serde_json::from_str::<J>(line).ok()?.as_array().cloned();
    }
    let rest = line.strip_prefix("<<\"REPLAY\", ")?;
    let rest = rest.strip_suffix(">>")?;
    let inner: String = serde_json::from_str(rest).ok()?;
    serde_json::from_str::<J>(&inner).ok()?.as_array().cloned()
}
