//! Interpreter: executes API-level actions (the vocabulary of spec/MC.tla `hist`) against the real
//! crates with instrumented closures, and compares the reference predictions of "expect" entries.

use crate::val::{self, Val};
use incremental::expert;
use incremental::{Cutoff, Incr, IncrState, Observer, SubscriptionToken, Update, Var, WeakState};
use serde_json::{json, Value as J};
use std::cell::{Cell, RefCell};
use std::collections::{BTreeMap, HashMap};
use std::panic::{catch_unwind, AssertUnwindSafe};
use std::rc::{Rc, Weak};

#[derive(Default)]
pub struct Log {
    /// (node id, args) of every user-function invocation since the last stabilise began
    pub inv: Vec<(usize, Vec<J>)>,
    /// cutoff consultations (node, old, new)
    pub cut: Vec<(usize, J, J)>,
    /// observer reads performed from inside user functions (observer, result)
    pub reads: Vec<(usize, J)>,
    /// values returned by API calls of the current action
    pub rets: Vec<J>,
    /// subscription deliveries (observer, token, kind, value, read-at-that-moment)
    pub dlv: Vec<(usize, i64, String, J, J)>,
    /// invocations of the function underlying a weak_memoize_fn (memo id, key)
    pub memo: Vec<(usize, J)>,
    /// deliveries to node-level on_update handlers (node, handler index on that node, kind, value)
    pub ndlv: Vec<(usize, usize, String, J)>,
}

#[derive(Default)]
pub struct Tables {
    pub nodes: Vec<Option<Incr<Val>>>,
    pub vars: HashMap<usize, Var<Val>>,
    pub observers: Vec<Vec<Observer<Val>>>,
    pub tokens: HashMap<(usize, i64), SubscriptionToken>,
    pub leaked: Vec<Incr<Val>>,
    /// expert node id -> "its observability callback panics next time it becomes observable"
    pub armed: HashMap<usize, Rc<Cell<bool>>>,
    /// number of on_update handlers installed per node
    pub nhandlers: HashMap<usize, usize>,
    pub log: Log,
    pub in_stabilise: bool,
}

pub type MemoFn = Box<dyn FnMut(i64) -> Incr<Val>>;

#[derive(Clone)]
pub struct Ctx {
    pub tables: Weak<RefCell<Tables>>,
    pub ws: WeakState,
    pub memos: Rc<RefCell<Vec<MemoFn>>>,
}

#[derive(Debug, Clone)]
pub struct Mismatch {
    pub prop: &'static str,
    pub step: usize,
    pub what: String,
}

pub struct Session {
    /// set when the engine's node ids stopped coinciding with the spec's (a different, legitimate
    /// schedule ran bind closures in another order): id-based comparisons are then meaningless
    pub misaligned: std::cell::Cell<bool>,
    pub aligned_n: std::cell::Cell<usize>,
    pub state: Option<IncrState>,
    pub t: Rc<RefCell<Tables>>,
    pub ctx: Ctx,
    pub trace: Vec<String>,
    pub record: bool,
}

fn read_json(r: Result<Val, incremental::ObserverError>) -> J {
    match r {
        Ok(v) => json!(["ok", v.to_json()]),
        Err(e) => json!(["err", format!("{e:?}")]),
    }
}

impl Ctx {
    /// parse a value; ["n", id, 0] becomes a handle to node id
    pub fn val(&self, j: &J) -> Option<Val> {
        if j[0] == "n" {
            return Some(Val::N(self.node(j[1].as_u64().unwrap() as usize)));
        }
        Val::from_json(j)
    }
    fn with<R>(&self, f: impl FnOnce(&mut Tables) -> R) -> Option<R> {
        let rc = self.tables.upgrade()?;
        let mut t = rc.try_borrow_mut().ok()?;
        Some(f(&mut t))
    }
    fn node(&self, id: usize) -> Incr<Val> {
        self.with(|t| {
            t.nodes
                .get(id - 1)
                .cloned()
                .flatten()
                .or_else(|| t.leaked.iter().find(|n| n.verif_index() == id).cloned())
        })
        .flatten()
        .unwrap_or_else(|| panic!("harness: no handle for node {id}"))
    }
    fn next_id(&self) -> usize {
        self.ws.upgrade().map_or(0, |s| s.verif_num_nodes() + 1)
    }
    fn push_node(&self, id: usize, n: Option<Incr<Val>>) {
        self.with(|t| {
            while t.nodes.len() < id {
                t.nodes.push(None);
            }
            t.nodes[id - 1] = n;
        });
    }

    fn run_effects(&self, eff: &[J], run_no: i64) {
        for e in eff {
            match e["e"].as_str().unwrap_or("") {
                "set" => {
                    let v = e["v"].as_u64().unwrap() as usize;
                    let var = self.with(|t| t.vars.get(&v).cloned()).flatten();
                    if let Some(var) = var {
                        let ret = write_var(&var, e["op"].as_str().unwrap(), Val::from_json(&e["x"]));
                        if let Some(r) = ret {
                            self.with(|t| t.log.rets.push(json!({"v": v, "r": r.to_json()})));
                        }
                    }
                }
                "read" => {
                    let o = e["o"].as_u64().unwrap() as usize;
                    let obs = self.with(|t| t.observers[o - 1].first().cloned()).flatten();
                    if let Some(obs) = obs {
                        let r = read_json(obs.try_get_value());
                        self.with(|t| t.log.reads.push((o, r)));
                    }
                }
                "disallow" => {
                    let o = e["o"].as_u64().unwrap() as usize;
                    let obs = self.with(|t| t.observers[o - 1].first().cloned()).flatten();
                    if let Some(obs) = obs {
                        obs.disallow_future_use();
                    }
                }
                "sub" => {
                    let o = e["o"].as_u64().unwrap() as usize;
                    let has_handle = self.with(|t| !t.observers[o - 1].is_empty()).unwrap_or(false);
                    if has_handle {
                        let r = self.subscribe(o, vec![]);
                        self.with(|t| t.log.rets.push(r));
                    }
                }
                "obs_drop" => {
                    // the closure owns the handle(s) of observer o and drops one
                    let o = e["o"].as_u64().unwrap() as usize;
                    let h = self.with(|t| t.observers[o - 1].pop()).flatten();
                    drop(h);
                }
                "drop_var" => {
                    let v = e["v"].as_u64().unwrap() as usize;
                    let w = self.with(|t| t.nodes[v - 1].take()).flatten();
                    let h = self.with(|t| t.vars.remove(&v)).flatten();
                    drop(w);
                    drop(h);
                }
                "stabilise" => {
                    if let Some(s) = self.ws.upgrade() {
                        s.stabilise();
                    }
                }
                "panic" => {
                    if e["at"].is_null() || run_no == 0 || e["at"].as_i64() == Some(run_no) {
                        panic!("injected user panic");
                    }
                }
                other => panic!("harness: unknown effect {other}"),
            }
        }
    }

    /// Observer::try_subscribe with a logging handler; tokens are numbered per observer in issue
    /// order like the spec's `onext`. Returns the entry for the return-value log.
    pub fn subscribe(&self, o: usize, eff: Vec<J>) -> J {
        let Some(h) = self.with(|t| t.observers[o - 1].first().cloned()).flatten() else {
            return json!({"o": o, "r": ["err", "NoHandle"]});
        };
        let c2 = self.clone();
        let tok_cell = Rc::new(Cell::new(0i64));
        let tc = tok_cell.clone();
        let r = h.try_subscribe(move |u: Update<&Val>| {
            let (k, v) = match u {
                Update::Initialised(v) => ("Necessary", v.to_json()),
                Update::Changed(v) => ("Changed", v.to_json()),
                Update::Invalidated => ("Invalidated", json!(["none", 0, 0])),
            };
            let obs = c2.with(|t| t.observers[o - 1].first().cloned()).flatten();
            let rd = obs.map_or(json!(["gone", ""]), |ob| read_json(ob.try_get_value()));
            c2.with(|t| t.log.dlv.push((o, tc.get(), k.to_string(), v, rd)));
            c2.run_effects(&eff, 0);
        });
        match r {
            Ok(tok) => {
                let n = self
                    .with(|t| {
                        let n = t.tokens.keys().filter(|(oo, _)| *oo == o).count() as i64 + 1;
                        t.tokens.insert((o, n), tok);
                        n
                    })
                    .unwrap_or(0);
                tok_cell.set(n);
                json!({"o": o, "r": ["ok", n]})
            }
            Err(e) => json!({"o": o, "r": ["err", format!("{e:?}")]}),
        }
    }

    fn make_map(&self, f: String, cap: Option<Val>, input: &Incr<Val>, eff: Vec<J>, id: usize) -> Incr<Val> {
        let ctx = self.clone();
        let runs = Cell::new(0i64);
        input.map(move |x: &Val| {
            runs.set(runs.get() + 1);
            ctx.with(|t| t.log.inv.push((id, vec![x.to_json()])));
            ctx.run_effects(&eff, runs.get());
            match &cap {
                None => val::f1(&f, x),
                Some(c) => val::f2(&f, c, x),
            }
        })
    }

    /// Incr::bind with a recipe; returns the main node. ids: lhs_change = id, main = id + 1.
    /// The closure owns clones of the handles of every node the recipe names (as real code would).
    fn make_bind(&self, lhs: &Incr<Val>, recipe: J, id: usize) -> Incr<Val> {
        let ctx = self.clone();
        let mut ids = vec![];
        recipe_refs(&recipe, &mut ids);
        let captured: HashMap<usize, Incr<Val>> = ids.into_iter().map(|i| (i, self.node(i))).collect();
        lhs.bind(move |v: &Val| {
            ctx.with(|t| t.log.inv.push((id, vec![v.to_json()])));
            ctx.run_recipe(&recipe, v, &captured)
        })
    }

    pub fn run_recipe(&self, rc: &J, v: &Val, cap: &HashMap<usize, Incr<Val>>) -> Incr<Val> {
        let node = |id: usize| cap.get(&id).cloned().unwrap_or_else(|| self.node(id));
        match rc["r"].as_str().unwrap_or("") {
            "pick" => {
                let ix = v.int() as usize;
                node(rc["alts"][ix].as_u64().unwrap() as usize)
            }
            "const" => {
                let id = self.next_id();
                let n = self.ws.constant(v.clone());
                self.push_node(id, None);
                n
            }
            "map" => {
                let id = self.next_id();
                let over = node(rc["over"].as_u64().unwrap() as usize);
                let n = self.make_map(rc["f"].as_str().unwrap().to_string(), Some(v.clone()), &over, vec![], id);
                self.push_node(id, None);
                n
            }
            "chain" => {
                let len = rc["len"].as_u64().unwrap();
                let mut prev = node(rc["over"].as_u64().unwrap() as usize);
                for i in 1..=len {
                    let id = self.next_id();
                    let (f, cap) = if i == 1 {
                        (rc["f"].as_str().unwrap().to_string(), Some(v.clone()))
                    } else {
                        ("id".to_string(), None)
                    };
                    prev = self.make_map(f, cap, &prev, vec![], id);
                    self.push_node(id, None);
                }
                prev
            }
            "alt" => self.run_recipe(&rc["alts"][v.int() as usize], v, cap),
            "bind" => {
                let id = self.next_id();
                let over = node(rc["over"].as_u64().unwrap() as usize);
                let n = self.make_bind_captured(&over, rc["inner"].clone(), id, cap.clone());
                self.push_node(id + 1, None);
                n
            }
            "junk" => {
                let j = self.run_recipe(&rc["pre"], v, cap);
                drop(j);
                self.run_recipe(&rc["then"], v, cap)
            }
            "ref" => match v {
                Val::N(n) => n.clone(),
                _ => panic!("harness: ref recipe on a non-node value"),
            },
            "foreign" => {
                // a node of another state (C19): the engine must refuse it
                let other = IncrState::new();
                let n = other.constant(v.clone());
                std::mem::forget(other);
                n
            }
            "memo" => {
                let m = rc["m"].as_u64().unwrap() as usize;
                let mut memos = self.memos.borrow_mut();
                (memos[m - 1])(v.int())
            }
            "boom" => {
                // a bind closure that panics on BoomVal (C13 crash point)
                if v.to_json() == json!(["i", 1, 0]) {
                    panic!("injected user panic (bind closure)");
                }
                self.run_recipe(&rc["then"], v, cap)
            }
            "leak" => {
                let n = self.run_recipe(&rc["then"], v, cap);
                self.with(|t| t.leaked.push(n.clone()));
                n
            }
            other => panic!("harness: unknown recipe {other}"),
        }
    }
}

impl Ctx {
    /// the on_observability_change callback of expert node `id`: panics once when armed (C13 crash point)
    fn obs_callback(&self, id: usize) -> impl FnMut(bool) + 'static {
        let armed = Rc::new(Cell::new(false));
        self.with(|t| t.armed.insert(id, armed.clone()));
        move |on: bool| {
            if on && armed.replace(false) {
                panic!("injected user panic (observability callback)");
            }
        }
    }
    fn make_bind_captured(&self, lhs: &Incr<Val>, recipe: J, id: usize, captured: HashMap<usize, Incr<Val>>) -> Incr<Val> {
        let ctx = self.clone();
        lhs.bind(move |v: &Val| {
            ctx.with(|t| t.log.inv.push((id, vec![v.to_json()])));
            ctx.run_recipe(&recipe, v, &captured)
        })
    }
}

/// ids of the nodes a recipe names
fn recipe_refs(rc: &J, out: &mut Vec<usize>) {
    match rc["r"].as_str().unwrap_or("") {
        "pick" => out.extend(rc["alts"].as_array().unwrap().iter().map(|x| x.as_u64().unwrap() as usize)),
        "map" | "chain" => out.push(rc["over"].as_u64().unwrap() as usize),
        "alt" => rc["alts"].as_array().unwrap().iter().for_each(|r| recipe_refs(r, out)),
        "bind" => {
            out.push(rc["over"].as_u64().unwrap() as usize);
            recipe_refs(&rc["inner"], out);
        }
        "junk" => {
            recipe_refs(&rc["pre"], out);
            recipe_refs(&rc["then"], out);
        }
        "leak" | "boom" => recipe_refs(&rc["then"], out),
        _ => {}
    }
}

fn write_var(var: &Var<Val>, op: &str, x: Option<Val>) -> Option<Val> {
    match op {
        "set" => {
            var.set(x.unwrap());
            None
        }
        "replace" => Some(var.replace(x.unwrap())),
        "update" => {
            var.update(|old| val::f1("inc", &old));
            None
        }
        "modify" => {
            var.modify(|v| *v = val::f1("inc", v));
            None
        }
        "replace_with" => Some(var.replace_with(|old| val::f1("inc", old))),
        other => panic!("harness: unknown write op {other}"),
    }
}

pub fn panic_class(panic: &str) -> &'static str {
    if panic.is_empty() {
        ""
    } else if panic.contains("too large height") {
        "height"
    } else if panic.contains("cyclic") {
        "cyclic"
    } else if panic.contains("max height already seen") {
        "max_height_seen"
    } else if panic.contains("injected user panic") {
        "user"
    } else if panic.contains("NotStabilising") || panic.contains("left == right") {
        "status"
    } else {
        "other"
    }
}

fn panic_msg(p: Box<dyn std::any::Any + Send>) -> String {
    if let Some(s) = p.downcast_ref::<&str>() {
        s.to_string()
    } else if let Some(s) = p.downcast_ref::<String>() {
        s.clone()
    } else {
        "<non-string panic>".to_string()
    }
}

impl Session {
    pub fn new(max_height: Option<usize>) -> Session {
        let state = match max_height {
            Some(h) => IncrState::new_with_height(h),
            None => IncrState::new(),
        };
        let t = Rc::new(RefCell::new(Tables::default()));
        let ctx = Ctx { tables: Rc::downgrade(&t), ws: state.weak(), memos: Rc::new(RefCell::new(vec![])) };
        Session { misaligned: Default::default(), aligned_n: Default::default(), state: Some(state), t, ctx, trace: vec![], record: false }
    }

    fn st(&self) -> &IncrState {
        self.state.as_ref().expect("state dropped")
    }

    fn node(&self, id: usize) -> Incr<Val> {
        self.ctx.node(id)
    }

    /// Execute one API action. Returns Err(panic message) if the call panicked.
    pub fn apply(&mut self, a: &J) -> Result<(), String> {
        let r = catch_unwind(AssertUnwindSafe(|| self.apply_inner(a)));
        match r {
            Ok(()) => Ok(()),
            Err(p) => Err(panic_msg(p)),
        }
    }

    fn apply_inner(&mut self, a: &J) {
        let kind = a["a"].as_str().unwrap_or("");
        let ctx = self.ctx.clone();
        if kind != "expect" {
            self.t.borrow_mut().log.rets.clear();
        }
        match kind {
            "var" => {
                let id = ctx.next_id();
                let v = self.st().var(ctx.val(&a["v"]).unwrap());
                ctx.push_node(id, Some(v.watch()));
                self.t.borrow_mut().vars.insert(id, v);
            }
            "const" => {
                let id = ctx.next_id();
                let n = self.st().constant(Val::from_json(&a["v"]).unwrap());
                ctx.push_node(id, Some(n));
            }
            "map" => {
                let id = ctx.next_id();
                let input = self.node(a["in"].as_u64().unwrap() as usize);
                let eff = a["eff"].as_array().cloned().unwrap_or_default();
                let n = ctx.make_map(a["f"].as_str().unwrap().to_string(), None, &input, eff, id);
                ctx.push_node(id, Some(n));
            }
            "map2" => {
                let id = ctx.next_id();
                let x = self.node(a["in"][0].as_u64().unwrap() as usize);
                let y = self.node(a["in"][1].as_u64().unwrap() as usize);
                let f = a["f"].as_str().unwrap().to_string();
                let c2 = ctx.clone();
                let n = x.map2(&y, move |p: &Val, q: &Val| {
                    c2.with(|t| t.log.inv.push((id, vec![p.to_json(), q.to_json()])));
                    val::f2(&f, p, q)
                });
                ctx.push_node(id, Some(n));
            }
            "fold" => {
                let id = ctx.next_id();
                let ins: Vec<Incr<Val>> = a["ins"]
                    .as_array()
                    .unwrap()
                    .iter()
                    .map(|x| self.node(x.as_u64().unwrap() as usize))
                    .collect();
                let f = a["f"].as_str().unwrap().to_string();
                let init = Val::from_json(&a["init"]).unwrap();
                let c2 = ctx.clone();
                let n_in = ins.len();
                // one log entry per pass: the fold function is called once per input, in order
                let calls = Rc::new(RefCell::new(Vec::<J>::new()));
                let n = self.st().fold(ins, init, move |acc: Val, x: &Val| {
                    let mut c = calls.borrow_mut();
                    c.push(x.to_json());
                    if c.len() == n_in {
                        let args = std::mem::take(&mut *c);
                        c2.with(|t| t.log.inv.push((id, args)));
                    }
                    val::f2(&f, &acc, x)
                });
                ctx.push_node(id, Some(n));
            }
            "mapref" => {
                let id = ctx.next_id();
                let input = self.node(a["in"].as_u64().unwrap() as usize);
                let f = a["f"].as_str().unwrap().to_string();
                let n = input.map_ref(move |x: &Val| val::proj(&f, x));
                ctx.push_node(id, Some(n));
            }
            "mwo" => {
                let id = ctx.next_id();
                let input = self.node(a["in"].as_u64().unwrap() as usize);
                let f = a["f"].as_str().unwrap().to_string();
                let mode_true = a["mode"].as_str() == Some("true");
                let c2 = ctx.clone();
                let n = input.map_with_old(move |old: Option<Val>, x: &Val| {
                    let oldj = old.as_ref().map_or(json!(["none", 0, 0]), |o| o.to_json());
                    c2.with(|t| t.log.inv.push((id, vec![oldj, x.to_json()])));
                    let new = val::f1(&f, x);
                    let did = mode_true || old.as_ref() != Some(&new);
                    (new, did)
                });
                ctx.push_node(id, Some(n));
            }
            "zip" => {
                let id = ctx.next_id();
                let x = self.node(a["in"][0].as_u64().unwrap() as usize);
                let y = self.node(a["in"][1].as_u64().unwrap() as usize);
                let z = x.zip(&y);
                let c2 = ctx.clone();
                // the tuple is converted to the value universe by an extra map node (id + 1)
                let n = z.map(move |(p, q): &(Val, Val)| {
                    let v = Val::pair(p.int(), q.int());
                    c2.with(|t| t.log.inv.push((id + 1, vec![v.to_json()])));
                    v
                });
                ctx.push_node(id, None);
                ctx.push_node(id + 1, Some(n));
            }
            "dependon" => {
                let id = ctx.next_id();
                let x = self.node(a["in"][0].as_u64().unwrap() as usize);
                let y = self.node(a["in"][1].as_u64().unwrap() as usize);
                let n = x.depend_on(&y);
                ctx.push_node(id, Some(n));
            }
            "xjoin" => {
                // join() of tests/expert.rs: expert node (id), controlling map (id + 1)
                let id = ctx.next_id();
                let input = self.node(a["in"].as_u64().unwrap() as usize);
                let prev: Rc<RefCell<Option<expert::Dependency<Val>>>> = Rc::new(RefCell::new(None));
                let c2 = ctx.clone();
                let join = expert::Node::<Val>::new_(&ctx.ws, {
                    let prev_ = prev.clone();
                    move || {
                        c2.with(|t| t.log.inv.push((id, vec![])));
                        prev_.borrow().clone().unwrap().value_cloned()
                    }
                }, ctx.obs_callback(id));
                let join_ = join.weak();
                let c3 = ctx.clone();
                let lhs_change = input.map(move |rhs: &Val| {
                    c3.with(|t| t.log.inv.push((id + 1, vec![rhs.to_json()])));
                    let Val::N(r) = rhs else { panic!("harness: xjoin input is not a node value") };
                    let dep = join_.add_dependency(r);
                    let mut p = prev.borrow_mut();
                    if let Some(old) = p.take() {
                        join_.remove_dependency(old);
                    }
                    p.replace(dep);
                    Val::U
                });
                join.add_dependency(&lhs_change);
                ctx.push_node(id, Some(join.watch()));
                ctx.push_node(id + 1, None);
            }
            "xcell" => {
                // the per-key node of incr_mapi_: an expert node reading a cell that its controlling map
                // node (id + 1, over `in`) writes before calling make_stale
                let id = ctx.next_id();
                let input = self.node(a["in"].as_u64().unwrap() as usize);
                let cell: Rc<RefCell<Option<Val>>> = Rc::new(RefCell::new(None));
                let c2 = ctx.clone();
                let node = expert::Node::<Val>::new_(&ctx.ws, {
                    let cell_ = cell.clone();
                    move || {
                        c2.with(|t| t.log.inv.push((id, vec![])));
                        cell_.borrow().clone().unwrap()
                    }
                }, ctx.obs_callback(id));
                let node_ = node.weak();
                let c3 = ctx.clone();
                let ctl = input.map(move |x: &Val| {
                    c3.with(|t| t.log.inv.push((id + 1, vec![x.to_json()])));
                    cell.borrow_mut().replace(x.clone());
                    node_.make_stale();
                    Val::U
                });
                node.add_dependency(&ctl);
                ctx.push_node(id, Some(node.watch()));
                ctx.push_node(id + 1, Some(ctl));
            }
            "xsum" => {
                // dynamic sum of the first `sel` nodes of ins, kept up to date by edge callbacks
                let id = ctx.next_id();
                let sel = self.node(a["sel"].as_u64().unwrap() as usize);
                let ins: Vec<Incr<Val>> = a["ins"].as_array().unwrap().iter().map(|x| self.node(x.as_u64().unwrap() as usize)).collect();
                let store: Rc<RefCell<Vec<(u64, Val)>>> = Rc::new(RefCell::new(vec![]));
                let c2 = ctx.clone();
                let node = expert::Node::<Val>::new_(&ctx.ws, {
                    let store_ = store.clone();
                    move || {
                        c2.with(|t| t.log.inv.push((id, vec![])));
                        Val::I(store_.borrow().iter().map(|(_, v)| v.int()).sum::<i64>() % val::k())
                    }
                }, ctx.obs_callback(id));
                let node_ = node.weak();
                let deps: RefCell<Vec<(u64, expert::Dependency<Val>)>> = RefCell::new(vec![]);
                let next_key = Cell::new(0u64);
                let c3 = ctx.clone();
                let ctl = sel.map(move |x: &Val| {
                    c3.with(|t| t.log.inv.push((id + 1, vec![x.to_json()])));
                    let want = x.int() as usize;
                    let mut deps = deps.borrow_mut();
                    while deps.len() < want {
                        let key = next_key.get() + 1;
                        next_key.set(key);
                        let st = store.clone();
                        let dep = node_.add_dependency_with(&ins[deps.len()], move |v: &Val| {
                            let mut st = st.borrow_mut();
                            st.retain(|(k, _)| *k != key);
                            st.push((key, v.clone()));
                        });
                        deps.push((key, dep));
                    }
                    while deps.len() > want {
                        let (key, dep) = deps.pop().unwrap();
                        node_.remove_dependency(dep);
                        store.borrow_mut().retain(|(k, _)| *k != key);
                    }
                    Val::U
                });
                node.add_dependency(&ctl);
                ctx.push_node(id, Some(node.watch()));
                ctx.push_node(id + 1, Some(ctl));
            }
            "bind" => {
                let id = ctx.next_id();
                let lhs = self.node(a["in"].as_u64().unwrap() as usize);
                let n = ctx.make_bind(&lhs, a["recipe"].clone(), id);
                ctx.push_node(id, None);
                ctx.push_node(id + 1, Some(n));
            }
            "on_update" => {
                // Incr::on_update: a node-level handler (no observer involved)
                let id = a["n"].as_u64().unwrap() as usize;
                let n = self.node(id);
                let ix = {
                    let mut t = self.t.borrow_mut();
                    let c = t.nhandlers.entry(id).or_insert(0);
                    *c += 1;
                    *c
                };
                let c2 = ctx.clone();
                n.on_update(move |u: incremental::NodeUpdate<&Val>| {
                    let (k, v) = match u {
                        incremental::NodeUpdate::Necessary(v) => ("Necessary", v.to_json()),
                        incremental::NodeUpdate::Changed(v) => ("Changed", v.to_json()),
                        incremental::NodeUpdate::Invalidated => ("Invalidated", json!(["none", 0, 0])),
                        incremental::NodeUpdate::Unnecessary => ("Unnecessary", json!(["none", 0, 0])),
                    };
                    c2.with(|t| t.log.ndlv.push((id, ix, k.to_string(), v)));
                });
            }
            "xarm" => {
                let id = a["n"].as_u64().unwrap() as usize;
                let cell = self.t.borrow().armed.get(&id).cloned().unwrap_or_else(|| panic!("harness: node {id} has no observability callback"));
                cell.set(true);
            }
            "cutoff" => {
                let id = a["n"].as_u64().unwrap() as usize;
                let n = self.node(id);
                let c = a["c"].as_str().unwrap().to_string();
                match c.as_str() {
                    "never" => n.set_cutoff(Cutoff::Never),
                    "always" => n.set_cutoff(Cutoff::Always),
                    "eq" => n.set_cutoff(Cutoff::PartialEq),
                    _ => {
                        let c2 = ctx.clone();
                        n.set_cutoff_fn_boxed(move |old: &Val, new: &Val| {
                            c2.with(|t| t.log.cut.push((id, old.to_json(), new.to_json())));
                            if c == "boom" {
                                // a cutoff function that panics on BoomVal (C13 crash point), else PartialEq
                                if new.to_json() == json!(["i", 1, 0]) {
                                    panic!("injected user panic (cutoff function)");
                                }
                                return old == new;
                            }
                            val::should_cutoff(&c, old, new)
                        });
                    }
                }
            }
            "write" => {
                let id = a["n"].as_u64().unwrap() as usize;
                let var = self.t.borrow().vars.get(&id).cloned().unwrap();
                let ret = write_var(&var, a["op"].as_str().unwrap(), ctx.val(&a["x"]));
                if let Some(r) = ret {
                    self.t.borrow_mut().log.rets.push(json!({"v": id, "r": r.to_json()}));
                }
            }
            "observe" | "observe_leaked" => {
                let n = if kind == "observe" {
                    self.node(a["n"].as_u64().unwrap() as usize)
                } else {
                    self.t.borrow().leaked[a["i"].as_u64().unwrap() as usize - 1].clone()
                };
                let o = n.observe();
                self.t.borrow_mut().observers.push(vec![o]);
            }
            "obs_clone" => {
                let o = a["o"].as_u64().unwrap() as usize;
                let c = self.t.borrow().observers[o - 1][0].clone();
                self.t.borrow_mut().observers[o - 1].push(c);
            }
            "obs_drop" => {
                let o = a["o"].as_u64().unwrap() as usize;
                let h = self.t.borrow_mut().observers[o - 1].pop();
                drop(h);
            }
            "disallow" => {
                let o = a["o"].as_u64().unwrap() as usize;
                let h = self.t.borrow().observers[o - 1][0].clone();
                h.disallow_future_use();
            }
            "subscribe" => {
                let o = a["o"].as_u64().unwrap() as usize;
                let eff = a["eff"].as_array().cloned().unwrap_or_default();
                let r = ctx.subscribe(o, eff);
                self.t.borrow_mut().log.rets.push(r);
            }
            "unsubscribe" | "state_unsubscribe" => {
                let o = a["o"].as_u64().unwrap() as usize;
                let to = a["to"].as_u64().unwrap_or(o as u64) as usize;
                let tk = a["t"].as_i64().unwrap();
                let tok = self.t.borrow().tokens.get(&(to, tk)).cloned();
                if let Some(tok) = tok {
                    if kind == "unsubscribe" {
                        let h = self.t.borrow().observers[o - 1][0].clone();
                        let r = h.unsubscribe(tok);
                        let j = match r {
                            Ok(()) => json!(["ok", 0]),
                            Err(e) => json!(["err", format!("{e:?}")]),
                        };
                        self.t.borrow_mut().log.rets.push(json!({"o": o, "r": j}));
                    } else {
                        self.st().unsubscribe(tok);
                    }
                }
            }
            "stabilise" => {
                {
                    let mut t = self.t.borrow_mut();
                    t.log.inv.clear();
                    t.log.cut.clear();
                    t.log.reads.clear();
                    t.log.dlv.clear();
                    t.log.memo.clear();
                    t.log.ndlv.clear();
                }
                self.st().stabilise();
            }
            "drop" => {
                let id = a["n"].as_u64().unwrap() as usize;
                let h = self.t.borrow_mut().nodes[id - 1].take();
                drop(h);
            }
            "drop_var" => {
                let id = a["n"].as_u64().unwrap() as usize;
                // the public Var and the harness's handle to its watch node
                let w = self.t.borrow_mut().nodes[id - 1].take();
                let h = self.t.borrow_mut().vars.remove(&id);
                drop(w);
                drop(h);
            }
            "memo_new" => {
                let m = ctx.memos.borrow().len() + 1;
                let f = a["f"].as_str().unwrap().to_string();
                let over = a["over"].as_u64().filter(|x| *x > 0).map(|x| self.node(x as usize));
                // builder context must not own the memo table itself (it is stored in there)
                let c2 = Ctx { tables: ctx.tables.clone(), ws: ctx.ws.clone(), memos: Rc::new(RefCell::new(vec![])) };
                let memo = self.st().weak_memoize_fn(move |key: i64| {
                    c2.with(|t| t.log.memo.push((m, json!(["i", key, 0]))));
                    let id = c2.next_id();
                    let n = match &over {
                        None => c2.ws.constant(Val::I(key)),
                        Some(o) => c2.make_map(f.clone(), Some(Val::I(key)), o, vec![], id),
                    };
                    c2.push_node(id, None);
                    n
                });
                ctx.memos.borrow_mut().push(Box::new(memo));
            }
            "set_max_height" => {
                self.st().set_max_height_allowed(a["h"].as_u64().unwrap() as usize);
            }
            "expect" | "expect_panic" | "drop_all" => {}
            other => panic!("harness: unknown action {other}"),
        }
    }

    /// Compare an "expect" entry (reference predictions) with the real state.
    pub fn check_expect(&self, e: &J, step: usize) -> Vec<Mismatch> {
        let mut out = vec![];
        let t = self.t.borrow();
        // reads
        if let Some(reads) = e["reads"].as_array() {
            for (i, want) in reads.iter().enumerate() {
                if want[0] == "skip" {
                    continue;
                }
                let Some(obs) = t.observers.get(i).and_then(|v| v.first()) else { continue };
                let got = read_json(obs.try_get_value());
                let want_norm = if want[0] == "ok" { json!(["ok", want[1]]) } else { want.clone() };
                if got != want_norm {
                    let prop = if want[0] == "ok" && got[0] == "ok" {
                        match e["rtags"].get(i).and_then(|t| t.as_str()) {
                            Some("C14") => "C14",
                            Some("C20") => "C20",
                            _ => "C01",
                        }
                    } else if want[1] == "ObservingInvalid" || got[1] == "ObservingInvalid" {
                        "C03"
                    } else {
                        "C10"
                    };
                    out.push(Mismatch { prop, step, what: format!("observer {} reads {got} expected {want_norm}", i + 1) });
                    if prop == "C01"
                        || (want[0] == "err" && (want[1] == "NeverStabilised" || want[1] == "CurrentlyStabilising"))
                    {
                        out.push(Mismatch { prop: "C07", step, what: format!("observer {} reads {got} expected {want_norm}", i + 1) });
                    }
                }
            }
        }
        // do the engine's ids still coincide with the spec's?
        let before = self.misaligned.get();
        let mut lim = usize::MAX;
        if let (Some(sc), Some(st)) = (e["scopes"].as_array(), self.state.as_ref()) {
            if let Ok(snap) = serde_json::from_str::<J>(&st.verif_snapshot()) {
                let nodes = snap["nodes"].as_array().cloned().unwrap_or_default();
                let mut ok = nodes.len() == sc.len();
                for (i, n) in nodes.iter().enumerate() {
                    if !ok {
                        break;
                    }
                    let got = n["scope"].as_i64().unwrap_or(-1);
                    if n["kind"] != "released" && got != -1 && Some(got) != sc[i].as_i64() {
                        if nodes.len() == sc.len() && e["memomade"].get(i).and_then(|b| b.as_bool()).unwrap_or(false) {
                            // not a re-numbering: C20 fixes the scope of a node made by a memoised function
                            out.push(Mismatch { prop: "C20", step, what: format!("node {} made by the memoised function belongs to scope {got} instead of the scope weak_memoize_fn was called in ({})", i + 1, sc[i]) });
                        } else {
                            ok = false;
                        }
                    }
                }
                if !ok {
                    self.misaligned.set(true);
                    // ids that existed before this round are still comparable in this round
                    lim = self.aligned_n.get();
                } else {
                    self.aligned_n.set(nodes.len());
                }
            }
        }
        if before {
            return out;
        }
        let opt = |n: usize| e["opt"].get(n - 1).and_then(|b| b.as_bool()).unwrap_or(false);
        // invocations
        if let Some(inv) = e["inv"].as_array() {
            let mut got: BTreeMap<usize, Vec<&Vec<J>>> = BTreeMap::new();
            for (n, args) in t.log.inv.iter().filter(|(n, _)| *n <= lim) {
                got.entry(*n).or_default().push(args);
            }
            let mut want: BTreeMap<usize, &J> = BTreeMap::new();
            for w in inv.iter().filter(|w| w["n"].as_u64().unwrap() as usize <= lim) {
                want.insert(w["n"].as_u64().unwrap() as usize, &w["args"]);
            }
            let in_cone = |n: usize| e["cone"].get(n - 1).and_then(|b| b.as_bool()).unwrap_or(true);
            for (n, runs) in got.iter() {
                if runs.len() > 1 {
                    out.push(Mismatch { prop: "C02", step, what: format!("node {n} function ran {} times in one stabilise: {runs:?}", runs.len()) });
                }
                match want.get(n) {
                    None if opt(*n) && !e["stale"].get(n - 1).and_then(|b| b.as_bool()).unwrap_or(false) => {}
                    None => {
                        let stale = e["stale"].get(n - 1).and_then(|b| b.as_bool()).unwrap_or(false);
                        let prop = if stale { "C03" } else if in_cone(*n) { "C06" } else { "C05" };
                        out.push(Mismatch { prop, step, what: format!("node {n} function ran with {:?} but no input changed / not needed", runs[0]) });
                    }
                    Some(w) => {
                        let last = runs[runs.len() - 1];
                        if &J::Array(last.clone()) != *w && !opt(*n) {
                            out.push(Mismatch { prop: "C02", step, what: format!("node {n} ran with args {last:?}, final inputs are {w}") });
                        }
                    }
                }
            }
            for (n, w) in want.iter() {
                if !got.contains_key(n) && !opt(*n) {
                    out.push(Mismatch { prop: "C06", step, what: format!("node {n} was not re-invoked although an input changed (expected args {w})") });
                }
            }
        }
        // subscription deliveries of the round (as a set; order among handlers is unspecified)
        if let Some(want) = e["dlv"].as_array() {
            let got: Vec<J> = t.log.dlv.iter().map(|(o, tk, k, v, _)| json!({"o": o, "t": tk, "u": k, "v": v})).collect();
            for g in &got {
                if !want.contains(g) {
                    out.push(Mismatch { prop: "C09", step, what: format!("unexpected delivery {g}") });
                    let t = g["o"].as_u64().and_then(|o| e["touched"].get(o as usize - 1)).and_then(|b| b.as_bool()).unwrap_or(false);
                    if t {
                        out.push(Mismatch { prop: "C10", step, what: format!("delivery {g} caused by a lifecycle call on another observer/subscription of the same node") });
                    }
                }
                if got.iter().filter(|x| *x == g).count() > 1 {
                    out.push(Mismatch { prop: "C09", step, what: format!("delivered twice {g}") });
                }
            }
            // what must have been delivered (subscriptions still live after the handlers ran)
            let must = e["dlvmin"].as_array().unwrap_or(want);
            let touched = |d: &J| {
                d["o"].as_u64().and_then(|o| e["touched"].get(o as usize - 1)).and_then(|b| b.as_bool()).unwrap_or(false)
            };
            for w in must {
                if !got.contains(w) {
                    out.push(Mismatch { prop: "C09", step, what: format!("missing delivery {w}") });
                    if touched(w) {
                        out.push(Mismatch { prop: "C10", step, what: format!("delivery {w} lost after a lifecycle call on another observer/subscription of the same node") });
                    }
                }
            }
            for (o, tk, k, v, rd) in t.log.dlv.iter() {
                if k != "Invalidated" && rd[0] != "gone" && rd != &json!(["ok", v]) {
                    out.push(Mismatch { prop: "C09", step, what: format!("delivery ({o},{tk}) {k} {v} but observer read {rd}") });
                }
            }
        }
        if let Some(want) = e["rets"].as_array() {
            let key = |j: &J| j.to_string();
            let mut g = t.log.rets.clone();
            let mut w = want.clone();
            g.sort_by_key(key);
            w.sort_by_key(key);
            if g != w {
                let prop = if want.iter().chain(t.log.rets.iter()).any(|r| !r["v"].is_null()) { "C08" } else { "C10" };
                out.push(Mismatch { prop, step, what: format!("call returned {:?} expected {want:?}", t.log.rets) });
            }
        }
        // C12: exactly the unreferenced nodes have been released
        if let (Some(want), Some(st)) = (e["released"].as_array(), self.state.as_ref()) {
            if let Ok(snap) = serde_json::from_str::<J>(&st.verif_snapshot()) {
                if let Some(nodes) = snap["nodes"].as_array() {
                    for (i, n) in nodes.iter().enumerate().filter(|(i, _)| *i < lim) {
                        let got = n["kind"] == "released";
                        let w = want.get(i).and_then(|b| b.as_bool()).unwrap_or(got);
                        if got != w {
                            let what = if w {
                                format!("node {} is still alive although nothing references it", i + 1)
                            } else {
                                format!("node {} was released although it is still referenced", i + 1)
                            };
                            out.push(Mismatch { prop: "C12", step, what });
                        }
                    }
                }
            }
        }
        // C11: the public counter agrees with the number of needed nodes
        if let (Some(want), Some(st)) = (e["necessary"].as_u64(), self.state.as_ref()) {
            let got = st.stats().necessary as u64;
            if got != want {
                out.push(Mismatch { prop: "C11", step, what: format!("stats().necessary = {got} but {want} nodes are needed") });
            }
        }
        if let Some(want) = e["cut"].as_array() {
            let keep = |n: usize| n <= lim && !opt(n);
            let mut got: Vec<J> = t.log.cut.iter().filter(|(n, _, _)| keep(*n)).map(|(n, o, w)| json!({"n": n, "old": o, "new": w})).collect();
            let mut want: Vec<J> = want.iter().filter(|w| keep(w["n"].as_u64().unwrap_or(0) as usize)).cloned().collect();
            let key = |j: &J| j.to_string();
            got.sort_by_key(key);
            got.dedup();
            want.sort_by_key(key);
            want.dedup();
            if got != want {
                out.push(Mismatch { prop: "C06", step, what: format!("cutoff consultations {got:?} expected {want:?}") });
            }
        }
        if let Some(want) = e["ndlv"].as_array() {
            let key = |j: &J| j.to_string();
            let mut g: Vec<J> = t.log.ndlv.iter().map(|(n, i, k, v)| json!({"n": n, "i": i, "u": k, "v": v})).collect();
            let mut w = want.clone();
            g.sort_by_key(key);
            w.sort_by_key(key);
            if g != w {
                out.push(Mismatch { prop: "ONUPDATE", step, what: format!("node-level on_update deliveries {g:?} expected {w:?}") });
            }
        }
        if let Some(want) = e["memo"].as_array() {
            let got: Vec<J> = t.log.memo.iter().map(|(m, k)| json!({"m": m, "key": k})).collect();
            if &got != want {
                out.push(Mismatch { prop: "C20", step, what: format!("memoised builder invocations {got:?} expected {want:?}") });
            }
        }
        if let Some(want) = e["inreads"].as_array() {
            let got: Vec<J> = t.log.reads.iter().map(|(o, r)| json!({"o": o, "r": r})).collect();
            let key = |j: &J| j.to_string();
            let (mut g, mut w) = (got.clone(), want.clone());
            g.sort_by_key(key);
            w.sort_by_key(key);
            if g != w {
                out.push(Mismatch { prop: "C07", step, what: format!("reads inside functions {got:?} expected {want:?}") });
            }
        }
        if let Some(st) = e["stable"].as_bool() {
            if let Some(s) = &self.state {
                // only the promised direction: pending propagation => not stable
                if s.is_stable() && !st {
                    out.push(Mismatch { prop: "C08", step, what: "is_stable() is true although propagation is pending".to_string() });
                }
            }
        }
        if let Some(cells) = e["cells"].as_array() {
            for (i, c) in cells.iter().enumerate().filter(|(i, _)| *i < lim) {
                if let Some(var) = t.vars.get(&(i + 1)) {
                    let got = var.get().to_json();
                    if &got != c {
                        out.push(Mismatch { prop: "C08", step, what: format!("var {} holds {got} expected {c}", i + 1) });
                    }
                }
            }
        }
        out
    }

    pub fn snapshot(&self) -> Option<String> {
        self.state.as_ref().map(|s| s.verif_snapshot())
    }
}

/// Run one behaviour (array of actions). Returns mismatches; a panic where none is expected is C04.
pub fn run_behaviour(hist: &[J], max_height: Option<usize>) -> Vec<Mismatch> {
    let mut s = Session::new(max_height);
    let mut out = vec![];
    let mut poisoned = false;
    let mut user_panic = false;
    for (i, a) in hist.iter().enumerate() {
        if a["a"] == "expect" {
            out.extend(s.check_expect(a, i));
            if s.misaligned.get() {
                // the rest of the behaviour names nodes by ids this engine allocated differently
                MISALIGNED.with(|c| c.set(c.get() + 1));
                break;
            }
            continue;
        }
        if a["a"] == "expect_panic" {
            // reads after a caught panic (C13)
            let mut ms = s.check_expect(&json!({"reads": a["reads"]}), i);
            for m in ms.iter_mut() {
                m.prop = "C13";
            }
            out.extend(ms);
            continue;
        }
        if let Err(msg) = s.apply(a) {
            if msg.starts_with("harness:") {
                out.push(Mismatch { prop: "HARNESS", step: i, what: msg });
                break;
            }
            // a panic is fine exactly where the spec predicts one (next entry is expect_panic)
            match hist.get(i + 1) {
                Some(e) if e["a"] == "expect_panic" => {
                    let want = e["class"].as_str().unwrap_or("");
                    let got = panic_class(&msg);
                    if (want == "height" || want == "cyclic") && got != want {
                        out.push(Mismatch { prop: "C19", step: i, what: format!("panic does not name the cause ({want}): {msg}") });
                    }
                    poisoned = true;
                    user_panic = user_panic || want == "user";
                }
                _ => {
                    out.push(Mismatch { prop: if poisoned { "C13" } else { "C04" }, step: i, what: format!("action {a} panicked: {msg}") });
                    // what ran before the panic is still judged against the prediction (C02)
                    if let Some(e) = hist.get(i + 1).filter(|e| e["a"] == "expect") {
                        let t = s.t.borrow();
                        let mut seen: HashMap<usize, usize> = HashMap::new();
                        for (n, args) in t.log.inv.iter() {
                            *seen.entry(*n).or_default() += 1;
                            if seen[n] > 1 {
                                out.push(Mismatch { prop: "C02", step: i, what: format!("node {n} function ran more than once in one stabilise (then the stabilise panicked)") });
                            }
                            // ... and so are functions that had no business running at all (C03 / C05)
                            let flag = |k: &str, d: bool| e[k].get(*n - 1).and_then(|b| b.as_bool()).unwrap_or(d);
                            if seen[n] == 1 && e["inv"].as_array().map_or(false, |v| !v.iter().any(|w| w["n"].as_u64() == Some(*n as u64))) {
                                if flag("stale", false) {
                                    out.push(Mismatch { prop: "C03", step: i, what: format!("node {n} created by a superseded run of its bind was invoked (then the stabilise panicked)") });
                                } else if !flag("cone", true) {
                                    out.push(Mismatch { prop: "C05", step: i, what: format!("node {n} function ran outside the cone of every live observer (then the stabilise panicked)") });
                                }
                            }
                            if let Some(w) = e["inv"].as_array().and_then(|v| v.iter().find(|w| w["n"].as_u64() == Some(*n as u64))) {
                                if J::Array(args.clone()) != w["args"] {
                                    out.push(Mismatch { prop: "C02", step: i, what: format!("node {n} ran with args {args:?}, final inputs are {} (then the stabilise panicked)", w["args"]) });
                                }
                            }
                        }
                    }
                    break;
                }
            }
        } else if matches!(hist.get(i + 1), Some(e) if e["a"] == "expect_panic") {
            let class = hist[i + 1]["class"].as_str().unwrap_or("").to_string();
            let prop = if class == "user" || poisoned { "C13" } else { "C19" };
            out.push(Mismatch { prop, step: i, what: format!("action {a} returned normally although a {class} panic is due") });
            break;
        }
    }
    // dropping everything must not panic either
    let r = catch_unwind(AssertUnwindSafe(move || drop(s)));
    if let Err(p) = r {
        // after a caught panic this is C13 (user function) / C19 (misuse or limit), otherwise C12
        let prop = if !poisoned { "C12" } else if user_panic { "C13" } else { "C19" };
        out.push(Mismatch { prop, step: hist.len(), what: format!("drop panicked after {}: {}", if poisoned { "a caught panic" } else { "a clean run" }, panic_msg(p)) });
    }
    out
}

// ---------------------------------------------------------------------------------------------
// Recording (bindings B and C): observations after every action + reshaped engine snapshot.

thread_local! {
    pub static ORDER: RefCell<Vec<i64>> = RefCell::new(vec![]);
    pub static HARNESS_ERRORS: RefCell<Vec<String>> = RefCell::new(vec![]);
    /// behaviours cut short because the engine allocated node ids in another order than the spec
    pub static MISALIGNED: std::cell::Cell<usize> = std::cell::Cell::new(0);
}

pub fn install_sink() {
    incremental::verif_set_sink(Some(Box::new(|line: &str| {
        if line.contains("\"ev\":\"recompute\"") {
            if let Ok(j) = serde_json::from_str::<J>(line) {
                ORDER.with(|o| o.borrow_mut().push(j["n"].as_i64().unwrap_or(0)));
            }
        }
    })));
}

fn val_of_debug(s: &J) -> J {
    match s.as_str() {
        None => json!(["none", 0, 0]),
        Some(txt) => match serde_json::from_str::<J>(txt) {
            Ok(J::Array(a)) if a.len() == 3 && a[0].is_string() => J::Array(a),
            _ => json!(["other", 0, 0]),
        },
    }
}

/// Reshape `verif_snapshot()` into per-field arrays indexed by node id (what IncrTrace.SnapState reads).
pub fn reshape_snapshot(snap: &str) -> J {
    let s: J = serde_json::from_str(snap).expect("snapshot json");
    let nodes = s["nodes"].as_array().cloned().unwrap_or_default();
    let mut m: BTreeMap<&str, Vec<J>> = BTreeMap::new();
    let mut rel = vec![];
    for (i, n) in nodes.iter().enumerate() {
        let released = n["kind"] == "released";
        if released {
            rel.push(json!(i + 1));
        }
        let kind = n["kind"].as_str().unwrap_or("");
        let g = |k: &str, d: J| if released || n[k].is_null() { d } else { n[k].clone() };
        m.entry("kind").or_default().push(if released { json!("released") } else { json!(kind) });
        // the node's definition in the spec's vocabulary (arity only), built from the engine's own edges
        let k = match kind {
            "const" | "var" | "lhs" | "main" | "expert" => kind,
            "map" | "mwo" => "map",
            "mapref" => "mapref",
            _ if released => "const",
            _ => "fold",
        };
        let mut ins = g("children", json!([]));
        if kind == "lhs" {
            ins = json!([g("lhs", json!(0))]);
        }
        if (k == "map" || k == "mapref") && ins.as_array().map_or(true, |a| a.is_empty()) {
            ins = json!([0]);
        }
        m.entry("def").or_default().push(json!({
            "k": k, "ins": ins, "f": "id",
            "main": if kind == "lhs" { n["main"].as_i64().unwrap_or(0).max(0) } else { 0 },
            "lc": if kind == "main" { g("lhs_change", json!(0)) } else { json!(0) },
        }));
        m.entry("children").or_default().push(g("children", json!([])));
        m.entry("created").or_default().push(if kind == "lhs" { g("created", json!([])) } else { json!([]) });
        m.entry("lc").or_default().push(if kind == "main" { g("lhs_change", json!(0)) } else { json!(0) });
        m.entry("lhsin").or_default().push(if kind == "lhs" { g("lhs", json!(0)) } else { json!(0) });
        m.entry("xedges").or_default().push(if kind == "expert" { g("edges", json!([])) } else { json!([]) });
        m.entry("fstale").or_default().push(if kind == "expert" { g("force_stale", json!(false)) } else { json!(false) });
        m.entry("scope").or_default().push(g("scope", json!(0)));
        m.entry("valid").or_default().push(g("valid", json!(false)));
        m.entry("h").or_default().push(g("h", json!(-1)));
        m.entry("hrch").or_default().push(g("h_rch", json!(-1)));
        m.entry("hahh").or_default().push(g("h_ahh", json!(-1)));
        m.entry("par").or_default().push(g("parents", json!([])));
        m.entry("cip").or_default().push(g("cip", json!([-1])));
        m.entry("pic").or_default().push(g("pic", json!([])));
        m.entry("recat").or_default().push(g("rec_at", json!(-1)));
        m.entry("chgat").or_default().push(g("chg_at", json!(-1)));
        m.entry("numh").or_default().push(g("num_handlers", json!(0)));
        m.entry("nnh").or_default().push(json!(if released { 0 } else { n["node_handlers"].as_i64().unwrap_or(0).max(0) }));
        m.entry("nobs").or_default().push(g("observers", json!([])));
        m.entry("rhs").or_default().push(if kind == "lhs" { g("rhs", json!(0)) } else { json!(0) });
        m.entry("force").or_default().push(g("force_nec", json!(false)));
        m.entry("setat").or_default().push(if kind == "var" { g("set_at", json!(-1)) } else { json!(-1) });
        m.entry("val").or_default().push(if released || kind == "mapref" {
            json!(["none", 0, 0])
        } else {
            val_of_debug(&n["val"])
        });
    }
    let mut out = serde_json::Map::new();
    for (k, v) in m {
        out.insert(k.to_string(), J::Array(v));
    }
    for k in ["def", "kind", "children", "created", "lc", "lhsin", "xedges", "fstale", "scope", "valid", "h", "hrch", "hahh", "par", "cip", "pic", "recat", "chgat", "numh", "nnh", "nobs", "rhs", "force", "setat", "val"] {
        out.entry(k.to_string()).or_insert(json!([]));
    }
    out.insert("rel".into(), J::Array(rel));
    let mut rch: Vec<(i64, J)> = s["rch"]["queues"]
        .as_object()
        .map(|o| o.iter().map(|(h, q)| (h.parse::<i64>().unwrap(), q.clone())).collect())
        .unwrap_or_default();
    rch.sort_by_key(|x| x.0);
    out.insert("rch".into(), J::Array(rch.into_iter().map(|(h, q)| json!([h, q])).collect()));
    out.insert("rchlen".into(), s["rch"]["len"].clone());
    out.insert("rchlower".into(), s["rch"]["lower"].clone());
    out.insert("rchmax".into(), s["rch"]["max_allowed"].clone());
    out.insert("ahhlen".into(), s["ahh"]["len"].clone());
    out.insert("ahhmax".into(), s["ahh"]["max_allowed"].clone());
    out.insert("ahhseen".into(), s["ahh"]["max_seen"].clone());
    out.insert("pinv".into(), s["prop_invalid"].clone());
    out.insert(
        "ostate".into(),
        J::Array(s["observers"].as_array().map_or(vec![], |v| v.iter().map(|o| o["state"].clone()).collect())),
    );
    out.insert(
        "onode".into(),
        J::Array(s["observers"].as_array().map_or(vec![], |v| v.iter().map(|o| if o["node"].is_null() { json!(0) } else { o["node"].clone() }).collect())),
    );
    out.insert(
        "ohandlers".into(),
        J::Array(s["observers"].as_array().map_or(vec![], |v| v.iter().map(|o| json!(o["handlers"].as_i64().unwrap_or(0).max(0))).collect())),
    );
    for (k, src) in [("ncreated", "created"), ("changed", "changed"), ("recomputed", "recomputed"), ("invalidated", "invalidated"), ("becamenec", "became_necessary"), ("becameunnec", "became_unnecessary")] {
        out.insert(k.into(), s["stats"][src].clone());
    }
    out.insert("status".into(), s["status"].clone());
    out.insert("num".into(), s["stab_num"].clone());
    J::Object(out)
}

impl Session {
    /// Everything a user (and the verif hook) can observe after an action.
    pub fn observations(&self, panic: &str) -> J {
        let t = self.t.borrow();
        let reads: Vec<J> = t
            .observers
            .iter()
            .map(|v| match v.first() {
                Some(o) => read_json(o.try_get_value()),
                None => json!(["gone", ""]),
            })
            .collect();
        let n_nodes = self.state.as_ref().map_or(0, |s| s.verif_num_nodes());
        let cells: Vec<J> = (1..=n_nodes)
            .map(|i| match t.vars.get(&i) {
                Some(v) => v.get().to_json(),
                None => json!(["gone", 0, 0]),
            })
            .collect();
        let inv: Vec<J> = t.log.inv.iter().map(|(n, a)| json!({"n": n, "args": a})).collect();
        let dlv: Vec<J> = t
            .log
            .dlv
            .iter()
            .map(|(o, tk, k, v, rd)| json!({"o": o, "t": tk, "u": k, "v": v, "rd": rd}))
            .collect();
        let cut: Vec<J> = t.log.cut.iter().map(|(n, o, w)| json!({"n": n, "old": o, "new": w})).collect();
        let memo: Vec<J> = t.log.memo.iter().map(|(m, k)| json!({"m": m, "key": k})).collect();
        let inreads: Vec<J> = t.log.reads.iter().map(|(o, r)| json!({"o": o, "r": r})).collect();
        let mut snap = match &self.state {
            Some(s) => reshape_snapshot(&s.verif_snapshot()),
            None => json!({}),
        };
        let order = ORDER.with(|o| std::mem::take(&mut *o.borrow_mut()));
        snap["order"] = json!(order);
        let pclass = panic_class(panic);
        json!({
            "panic": panic, "pclass": pclass, "reads": reads, "cells": cells, "inv": inv, "dlv": dlv, "cut": cut,
            "inreads": inreads, "memo": memo, "rets": t.log.rets.clone(),
            "ndlv": t.log.ndlv.iter().map(|(n, i, k, v)| json!({"n": n, "i": i, "u": k, "v": v})).collect::<Vec<J>>(),
            "stable": self.state.as_ref().map_or(true, |s| s.is_stable()),
            "snap": snap,
        })
    }
}

/// Execute a script and record one ndjson line per action (with observations).
pub fn record_script(script: &[J], max_height: Option<usize>, run: usize, out: &mut Vec<String>) {
    install_sink();
    ORDER.with(|o| o.borrow_mut().clear());
    let mut s = Session::new(max_height);
    out.push(json!({"a": "reset", "maxh": max_height.unwrap_or(128), "run": run}).to_string());
    let mut panicked = false;
    let mut user_panic = false;
    for a in script {
        if a["a"] == "expect" || a["a"] == "expect_panic" {
            continue;
        }
        let r = s.apply(a);
        if let Err(m) = &r {
            if m.starts_with("harness:") && panicked {
                // the script names something an earlier action would have created had it not panicked
                // (a script written for another height limit, a mutated engine): the run ends here
                break;
            }
            if m.starts_with("harness:") {
                // a defect of the harness / script, not of the code under test: make it loud
                HARNESS_ERRORS.with(|h| h.borrow_mut().push(format!("run {run}: {m} on {a}")));
            }
        }
        let msg = match &r {
            Ok(()) => String::new(),
            Err(m) => m.clone(),
        };
        let mut line = a.clone();
        line["run"] = json!(run);
        line["obs"] = s.observations(&msg);
        out.push(line.to_string());
        if let Err(m) = &r {
            panicked = true;
            user_panic = user_panic || panic_class(m) == "user";
        }
    }
    let d = catch_unwind(AssertUnwindSafe(move || drop(s)));
    let msg = match d {
        Ok(()) => String::new(),
        Err(p) => panic_msg(p),
    };
    out.push(json!({"a": "drop_all", "run": run, "after_panic": panicked, "user_panic": user_panic, "obs": {"panic": msg}}).to_string());
}
