//! randgen --n <runs> --seed <S> --len <L> --k <K> --out <scripts-file> [--profile core|bind|obs|all]
//! Seeded random generator of well-formed API scripts, much larger than TLC's exhaustive bounds.
//! Scripts are generated ONLINE (executed against the real crate while being generated, so node ids
//! are known); the output is then recorded and judged like any other script.
use rand::rngs::StdRng;
use rand::{Rng, SeedableRng};
use serde_json::{json, Value as J};
use std::io::Write;
use verif_harness::{session::Session, val};

#[derive(Clone, Copy, PartialEq)]
enum Ty {
    Int,
    Pair,
    Hidden,
}

struct Gen {
    rng: StdRng,
    k: i64,
    tys: Vec<Ty>,
    vars: Vec<usize>,
    nobs: usize,
    live_obs: Vec<usize>,
    subs: Vec<(usize, i64)>,
    next_tok: Vec<i64>,
    profile: String,
    /// vars holding a node handle (Var<Incr>), expert nodes with an observability callback, memo tables
    nvars: Vec<usize>,
    experts: Vec<usize>,
    memos: usize,
    /// at most one injected crash point per program
    crash: bool,
    nupd: usize,
}

impl Gen {
    fn ints(&self) -> Vec<usize> {
        (1..=self.tys.len()).filter(|i| self.tys[i - 1] == Ty::Int).collect()
    }
    fn pairs(&self) -> Vec<usize> {
        (1..=self.tys.len()).filter(|i| self.tys[i - 1] == Ty::Pair).collect()
    }
    fn pick<T: Copy>(&mut self, v: &[T]) -> T {
        v[self.rng.gen_range(0..v.len())]
    }
    fn ival(&mut self) -> J {
        json!(["i", self.rng.gen_range(0..self.k), 0])
    }
    fn recipe(&mut self, depth: usize) -> J {
        let ints = self.ints();
        let r = self.rng.gen_range(0..if depth > 0 { 8 } else { 4 });
        match r {
            0 => {
                let alts: Vec<usize> = (0..self.k).map(|_| self.pick(&ints)).collect();
                json!({"r": "pick", "alts": alts})
            }
            1 => json!({"r": "const"}),
            2 => json!({"r": "map", "f": self.pick(&["add", "max", "fst"]), "over": self.pick(&ints)}),
            3 => json!({"r": "chain", "f": "add", "over": self.pick(&ints), "len": self.rng.gen_range(1..4)}),
            4 => {
                let alts: Vec<J> = (0..self.k).map(|_| self.recipe(depth - 1)).collect();
                json!({"r": "alt", "alts": alts})
            }
            5 => json!({"r": "bind", "over": self.pick(&ints), "inner": self.recipe(depth - 1)}),
            6 if self.memos > 0 => json!({"r": "memo", "m": 1}),
            6 if self.profile == "all" && !self.crash && self.rng.gen_bool(0.3) => {
                self.crash = true;
                json!({"r": "boom", "then": self.recipe(0)})
            }
            _ => json!({"r": "junk", "pre": {"r": "map", "f": "add", "over": self.pick(&ints)}, "then": self.recipe(0)}),
        }
    }

    fn next(&mut self, sess: &Session, step: usize, len: usize) -> J {
        let n = sess.state.as_ref().map_or(0, |s| s.verif_num_nodes());
        // keep type table in step with what the engine created (bind-internal nodes are hidden)
        while self.tys.len() < n {
            self.tys.push(Ty::Hidden);
        }
        let ints = self.ints();
        let building = self.tys.len() < 14 && (step < len / 3 || self.rng.gen_bool(0.15));
        if self.vars.is_empty() || ints.is_empty() {
            return json!({"a": "var", "v": self.ival()});
        }
        if building {
            let binds = self.profile != "core";
            if self.profile == "all" && self.rng.gen_bool(0.2) {
                let vars_int: Vec<usize> = self.vars.iter().copied().filter(|v| self.tys[*v - 1] == Ty::Int).collect();
                return match self.rng.gen_range(0..5) {
                    0 => json!({"a": "xcell", "in": self.pick(&ints)}),
                    1 if !vars_int.is_empty() => json!({"a": "xsum", "sel": self.pick(&vars_int), "ins": [self.pick(&ints), self.pick(&ints)]}),
                    2 => json!({"a": "var", "v": ["n", self.pick(&ints), 0]}),
                    3 if !self.nvars.is_empty() => json!({"a": "xjoin", "in": self.pick(&self.nvars.clone())}),
                    4 if self.memos == 0 => {
                        if self.rng.gen_bool(0.5) {
                            json!({"a": "memo_new", "f": "const", "over": 0})
                        } else {
                            json!({"a": "memo_new", "f": self.pick(&["add", "max"]), "over": self.pick(&ints)})
                        }
                    }
                    _ => json!({"a": "xcell", "in": self.pick(&ints)}),
                };
            }
            let c = self.rng.gen_range(0..if binds { 14 } else { 10 });
            return match c {
                0 => json!({"a": "var", "v": self.ival()}),
                1 => json!({"a": "const", "v": self.ival()}),
                2 | 3 => json!({"a": "map", "f": self.pick(&["id", "inc", "const0", "min1"]), "in": self.pick(&ints), "eff": []}),
                4 => json!({"a": "map2", "f": self.pick(&["add", "max", "fst"]), "in": [self.pick(&ints), self.pick(&ints)]}),
                5 => {
                    let m = self.rng.gen_range(1..4);
                    let ins: Vec<usize> = (0..m).map(|_| self.pick(&ints)).collect();
                    json!({"a": "fold", "f": "add", "ins": ins, "init": ["i", 0, 0]})
                }
                6 => json!({"a": "mwo", "f": self.pick(&["id", "min1"]), "mode": self.pick(&["ne", "true"]), "in": self.pick(&ints)}),
                7 => {
                    let pairs = self.pairs();
                    if pairs.is_empty() || self.rng.gen_bool(0.4) {
                        json!({"a": "map", "f": self.pick(&["dup", "pair0", "halfp"]), "in": self.pick(&ints), "eff": []})
                    } else if self.rng.gen_bool(0.5) {
                        json!({"a": "mapref", "f": self.pick(&["fst", "snd"]), "in": self.pick(&pairs)})
                    } else {
                        json!({"a": "map", "f": self.pick(&["fst", "snd"]), "in": self.pick(&pairs), "eff": []})
                    }
                }
                8 => json!({"a": "mapref", "f": "id", "in": self.pick(&ints)}),
                9 => {
                    let x = self.pick(&ints);
                    let y = self.pick(&ints);
                    if x != y && self.rng.gen_bool(0.5) {
                        json!({"a": "dependon", "in": [x, y]})
                    } else {
                        json!({"a": "zip", "in": [x, y]})
                    }
                }
                10 => {
                    let cands: Vec<usize> = ints.clone();
                    if self.profile == "all" && !self.crash && self.rng.gen_bool(0.1) {
                        self.crash = true;
                        json!({"a": "cutoff", "n": self.pick(&cands), "c": "boom"})
                    } else {
                        json!({"a": "cutoff", "n": self.pick(&cands), "c": self.pick(&["never", "always", "min1", "le", "eq"])})
                    }
                }
                _ => json!({"a": "bind", "in": self.pick(&ints), "recipe": self.recipe(1)}),
            };
        }
        let c = self.rng.gen_range(0..22);
        match c {
            20 if !self.nvars.is_empty() => {
                // re-point a Var<Incr> at another (older, hence acyclic) node
                let v = self.pick(&self.nvars.clone());
                let older: Vec<usize> = ints.iter().copied().filter(|n| *n < v).collect();
                if older.is_empty() {
                    json!({"a": "stabilise"})
                } else {
                    json!({"a": "write", "n": v, "op": "set", "x": ["n", self.pick(&older), 0]})
                }
            }
            19 if self.profile == "all" && self.nupd < 3 => {
                // a node-level on_update handler on any visible node
                self.nupd += 1;
                let visible: Vec<usize> = (1..=self.tys.len()).filter(|i| self.tys[i - 1] != Ty::Hidden).collect();
                json!({"a": "on_update", "n": self.pick(&visible)})
            }
            21 if !self.experts.is_empty() && !self.crash => {
                self.crash = true;
                json!({"a": "xarm", "n": self.pick(&self.experts.clone())})
            }
            0..=6 => {
                let v = self.pick(&self.vars.clone());
                let op = self.pick(&["set", "set", "set", "update", "modify", "replace", "replace_with"]);
                if op == "set" || op == "replace" {
                    json!({"a": "write", "n": v, "op": op, "x": self.ival()})
                } else {
                    json!({"a": "write", "n": v, "op": op, "x": ["none", 0, 0]})
                }
            }
            7..=9 if self.nobs < 5 => {
                let visible: Vec<usize> = (1..=self.tys.len()).filter(|i| self.tys[i - 1] != Ty::Hidden).collect();
                json!({"a": "observe", "n": self.pick(&visible)})
            }
            10 if !self.live_obs.is_empty() => json!({"a": "obs_drop", "o": self.pick(&self.live_obs.clone())}),
            11 if !self.live_obs.is_empty() => json!({"a": "disallow", "o": self.pick(&self.live_obs.clone())}),
            12 | 13 if !self.live_obs.is_empty() && self.subs.len() < 6 => {
                json!({"a": "subscribe", "o": self.pick(&self.live_obs.clone()), "eff": []})
            }
            14 if !self.subs.is_empty() && !self.live_obs.is_empty() => {
                let (to, t) = self.pick(&self.subs.clone());
                let o = if self.rng.gen_bool(0.8) { to } else { self.pick(&self.live_obs.clone()) };
                if self.live_obs.contains(&o) {
                    json!({"a": "unsubscribe", "o": o, "to": to, "t": t})
                } else {
                    json!({"a": "state_unsubscribe", "o": to, "to": to, "t": t})
                }
            }
            _ => json!({"a": "stabilise"}),
        }
    }

    fn applied(&mut self, a: &J, before: usize, after: usize) {
        let kind = a["a"].as_str().unwrap();
        while self.tys.len() < after {
            self.tys.push(Ty::Hidden);
        }
        let set = |tys: &mut Vec<Ty>, id: usize, t: Ty| tys[id - 1] = t;
        match kind {
            "var" if a["v"][0] == "n" => {
                set(&mut self.tys, before + 1, Ty::Hidden);
                self.nvars.push(before + 1);
            }
            "var" => {
                set(&mut self.tys, before + 1, Ty::Int);
                self.vars.push(before + 1);
            }
            "xcell" | "xsum" | "xjoin" => {
                // expert node (visible, int-valued) + its controlling node (hidden)
                set(&mut self.tys, before + 1, Ty::Int);
                self.experts.push(before + 1);
            }
            "memo_new" => self.memos += 1,
            "const" | "map2" | "fold" | "mwo" | "dependon" => set(&mut self.tys, before + 1, Ty::Int),
            "map" => {
                let f = a["f"].as_str().unwrap();
                let t = if ["dup", "pair0", "halfp"].contains(&f) { Ty::Pair } else { Ty::Int };
                set(&mut self.tys, before + 1, t);
            }
            "mapref" => set(&mut self.tys, before + 1, Ty::Int),
            "zip" => {
                if after >= before + 2 {
                    set(&mut self.tys, before + 2, Ty::Pair);
                }
            }
            "bind" => set(&mut self.tys, before + 2, Ty::Int),
            "observe" => {
                self.nobs += 1;
                self.live_obs.push(self.nobs);
                self.next_tok.push(1);
            }
            "obs_drop" | "disallow" => {
                let o = a["o"].as_u64().unwrap() as usize;
                self.live_obs.retain(|x| *x != o);
            }
            "subscribe" => {
                let o = a["o"].as_u64().unwrap() as usize;
                let t = self.next_tok[o - 1];
                self.next_tok[o - 1] += 1;
                self.subs.push((o, t));
            }
            _ => {}
        }
    }
}

fn main() {
    let args: Vec<String> = std::env::args().collect();
    let (mut n, mut seed, mut len, mut k, mut out, mut profile) = (50usize, 0u64, 40usize, 3i64, None, "all".to_string());
    let mut i = 1;
    while i < args.len() {
        match args[i].as_str() {
            "--n" => { n = args[i + 1].parse().unwrap(); i += 1; }
            "--seed" => { seed = args[i + 1].parse().unwrap(); i += 1; }
            "--len" => { len = args[i + 1].parse().unwrap(); i += 1; }
            "--k" => { k = args[i + 1].parse().unwrap(); i += 1; }
            "--out" => { out = Some(args[i + 1].clone()); i += 1; }
            "--profile" => { profile = args[i + 1].clone(); i += 1; }
            other => panic!("unknown arg {other}"),
        }
        i += 1;
    }
    val::K.with(|c| c.set(k));
    std::panic::set_hook(Box::new(|_| {}));
    let mut f = std::io::BufWriter::new(std::fs::File::create(out.expect("--out")).unwrap());
    for run in 0..n {
        let mut g = Gen {
            rng: StdRng::seed_from_u64(seed.wrapping_mul(1_000_003).wrapping_add(run as u64)),
            k, tys: vec![], vars: vec![], nobs: 0, live_obs: vec![], subs: vec![], next_tok: vec![], profile: profile.clone(),
            nvars: vec![], experts: vec![], memos: 0, crash: false, nupd: 0,
        };
        let mut sess = Session::new(None);
        let mut script: Vec<J> = vec![];
        for step in 0..len {
            let a = g.next(&sess, step, len);
            let before = sess.state.as_ref().map_or(0, |s| s.verif_num_nodes());
            let r = sess.apply(&a);
            let after = sess.state.as_ref().map_or(0, |s| s.verif_num_nodes());
            script.push(a.clone());
            if r.is_err() {
                break;
            }
            g.applied(&a, before, after);
        }
        script.push(json!({"a": "stabilise"}));
        writeln!(f, "{}", J::Array(script)).unwrap();
        let _ = std::panic::catch_unwind(std::panic::AssertUnwindSafe(move || drop(sess)));
    }
}
