//! replay <behaviours-file> [--out <dir>] [--k <K>] [--maxh <H>]
//! Replays TLC-exported behaviours against the real crates (binding A) and prints a JSON summary.
use serde_json::{json, Value as J};
use std::collections::BTreeMap;
use std::io::{BufRead, Write};
use verif_harness::{parse_behaviour_line, session::run_behaviour, val};

fn main() {
    let args: Vec<String> = std::env::args().collect();
    let mut file = None;
    let mut out_dir = None;
    let mut maxh = None;
    let mut i = 1;
    while i < args.len() {
        match args[i].as_str() {
            "--out" => { out_dir = Some(args[i + 1].clone()); i += 1; }
            "--k" => { val::K.with(|k| k.set(args[i + 1].parse().unwrap())); i += 1; }
            "--maxh" => { maxh = Some(args[i + 1].parse::<usize>().unwrap()); i += 1; }
            f => file = Some(f.to_string()),
        }
        i += 1;
    }
    std::panic::set_hook(Box::new(|_| {}));
    let file = file.expect("usage: replay <file>");
    let rd = std::io::BufReader::new(std::fs::File::open(&file).expect("open"));
    let mut n = 0usize;
    let mut bad = 0usize;
    let mut by_prop: BTreeMap<String, usize> = BTreeMap::new();
    let mut failures: Vec<J> = vec![];
    let mut samples: Vec<J> = vec![];
    let mut nontrivial = 0usize;
    for line in rd.lines() {
        let line = line.unwrap();
        let Some(hist) = parse_behaviour_line(&line) else { continue };
        n += 1;
        let is_nontrivial = hist.iter().any(|a| a["a"] == "expect" && a["inv"].as_array().map_or(false, |v| !v.is_empty()));
        if is_nontrivial {
            nontrivial += 1;
            // written-out samples: short non-trivial behaviours say more than the first trivial ones
            if samples.len() < 2 && hist.len() <= 24 { samples.push(J::Array(hist.clone())); }
        }
        let ms = run_behaviour(&hist, maxh);
        if !ms.is_empty() {
            bad += 1;
            let mut props = vec![];
            for m in &ms {
                *by_prop.entry(m.prop.to_string()).or_default() += 1;
                if !props.contains(&m.prop) { props.push(m.prop); }
            }
            let rec = json!({
                "k": val::k(), "maxh": maxh,
                "hist": hist,
                "mismatches": ms.iter().map(|m| json!({"prop": m.prop, "step": m.step, "what": m.what})).collect::<Vec<_>>(),
            });
            if let Some(dir) = &out_dir {
                for p in props {
                    let cnt = failures.iter().filter(|f| f["prop"] == p).count();
                    if cnt < 5 {
                        std::fs::create_dir_all(format!("{dir}/{p}")).ok();
                        let path = format!("{dir}/{p}/replay-{}.json", cnt);
                        let mut f = std::fs::File::create(&path).unwrap();
                        writeln!(f, "{}", rec).unwrap();
                        failures.push(json!({"prop": p, "path": path, "first": ms.iter().find(|m| m.prop == p).map(|m| m.what.clone())}));
                    }
                }
            }
        }
    }
    println!("{}", json!({"behaviours": n, "nontrivial": nontrivial, "failed": bad, "by_prop": by_prop, "failures": failures, "samples": samples,
        "misaligned": verif_harness::session::MISALIGNED.with(|c| c.get())}));
}
