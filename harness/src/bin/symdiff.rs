//! C18 conformance driver: symmetric_fold / incr_merge of incremental-map against the
//! cases exported by TLC from spec/MC_SymDiff.tla, plus a random trace generator judged by
//! spec/SymDiffMon.tla.
//!
//!   symdiff <cases-file> [--out <dir>]
//!       lines `<<"CASE", "<json string>">>`; kinds "diff" and "merge".
//!   symdiff --random <N> --seed <S> --out-trace <file> [--max-keys <K>] [--max-val <V>]
//!       one ndjson line per random pair of maps with what the real symmetric_fold visited.
//!   symdiff --one <violation.json> [--out-trace <file>]
//!       re-run one violation file ({"kind":"symdiff-case",..} or {"kind":"symdiff-random",..}).
use im_rc::OrdMap;
use incremental::IncrState;
use incremental_map::prelude::{IncrBTreeMap, IncrOrdMap};
use incremental_map::symmetric_fold::{DiffElement, MergeElement, SymmetricFoldMap};
use rand::{rngs::StdRng, Rng, SeedableRng};
use serde_json::{json, Value as J};
use std::cell::{Cell, RefCell};
use std::collections::BTreeMap;
use std::io::{BufRead, Write};
use std::panic::{catch_unwind, AssertUnwindSafe};
use std::rc::Rc;

type Pairs = Vec<(i64, i64)>;
const ABSENT: i64 = -1;

fn pairs_of(j: &J) -> Pairs {
    j.as_array()
        .expect("map must be an array of [k,v]")
        .iter()
        .map(|p| (p[0].as_i64().unwrap(), p[1].as_i64().unwrap()))
        .collect()
}
fn pairs_json(p: &Pairs) -> J {
    J::Array(p.iter().map(|(k, v)| json!([k, v])).collect())
}
fn btree(p: &Pairs) -> BTreeMap<i64, i64> {
    p.iter().cloned().collect()
}
fn ord(p: &Pairs) -> OrdMap<i64, i64> {
    p.iter().cloned().collect()
}
/// `to` built from a clone of `from` by point updates, so the two trees share structure
/// (OrdMap::diff takes pointer-equality shortcuts on shared nodes).
fn ord_derived(from: &OrdMap<i64, i64>, to: &Pairs) -> OrdMap<i64, i64> {
    let target = btree(to);
    let mut m = from.clone();
    let keys: Vec<i64> = from.keys().cloned().collect();
    for k in keys {
        if !target.contains_key(&k) {
            m.remove(&k);
        }
    }
    for (k, v) in &target {
        if m.get(k) != Some(v) {
            m.insert(*k, *v);
        }
    }
    m
}

fn diff_json(k: &i64, d: DiffElement<&i64>) -> J {
    match d {
        DiffElement::Left(a) => json!([k, "Left", a, ABSENT]),
        DiffElement::Right(b) => json!([k, "Right", ABSENT, b]),
        DiffElement::Unequal(a, b) => json!([k, "Unequal", a, b]),
    }
}

fn visit<M: SymmetricFoldMap<i64, i64>>(a: &M, b: &M) -> J {
    let v = a.symmetric_fold(b, Vec::new(), |mut acc: Vec<J>, (k, d)| {
        acc.push(diff_json(k, d));
        acc
    });
    J::Array(v)
}

fn panic_msg(e: Box<dyn std::any::Any + Send>) -> String {
    if let Some(s) = e.downcast_ref::<String>() {
        s.clone()
    } else if let Some(s) = e.downcast_ref::<&str>() {
        s.to_string()
    } else {
        "panic".to_string()
    }
}

fn guarded(f: impl FnOnce() -> J) -> J {
    match catch_unwind(AssertUnwindSafe(f)) {
        Ok(j) => j,
        Err(e) => json!({"panic": panic_msg(e)}),
    }
}

/// What the real symmetric_fold visits, per map type.
fn visited_all(m1: &Pairs, m2: &Pairs) -> Vec<(&'static str, J)> {
    vec![
        ("btree", guarded(|| visit(&btree(m1), &btree(m2)))),
        ("rc", guarded(|| visit(&Rc::new(btree(m1)), &Rc::new(btree(m2))))),
        ("ord", guarded(|| visit(&ord(m1), &ord(m2)))),
        ("ord_shared", guarded(|| {
            let a = ord(m1);
            let b = ord_derived(&a, m2);
            visit(&a, &b)
        })),
    ]
}

/// Reference (definition) used only by `--one` on random files and for the first-run check of
/// merge cases; the judge of record is the TLA+ definition.
fn diff_def(m1: &Pairs, m2: &Pairs) -> J {
    let a = btree(m1);
    let b = btree(m2);
    let mut keys: Vec<i64> = a.keys().chain(b.keys()).cloned().collect();
    keys.sort();
    keys.dedup();
    let mut out = vec![];
    for k in keys {
        match (a.get(&k), b.get(&k)) {
            (Some(x), Some(y)) if x != y => out.push(json!([k, "Unequal", x, y])),
            (Some(x), None) => out.push(json!([k, "Left", x, ABSENT])),
            (None, Some(y)) => out.push(json!([k, "Right", ABSENT, y])),
            _ => {}
        }
    }
    J::Array(out)
}
fn merge_def(l: &Pairs, r: &Pairs) -> J {
    let a = btree(l);
    let b = btree(r);
    let mut keys: Vec<i64> = a.keys().chain(b.keys()).cloned().collect();
    keys.sort();
    keys.dedup();
    J::Array(
        keys.iter()
            .map(|k| match (a.get(k), b.get(k)) {
                (Some(x), Some(y)) => json!([k, ["Both", x, y]]),
                (Some(x), None) => json!([k, ["Left", x, ABSENT]]),
                (None, Some(y)) => json!([k, ["Right", ABSENT, y]]),
                _ => unreachable!(),
            })
            .collect(),
    )
}

fn elem_json(m: &MergeElement<i64, i64>) -> J {
    match m {
        MergeElement::Left(a) => json!(["Left", a, ABSENT]),
        MergeElement::Right(b) => json!(["Right", ABSENT, b]),
        MergeElement::Both(a, b) => json!(["Both", a, b]),
    }
}

macro_rules! dump_obs {
    ($obs:expr) => {
        match $obs.try_get_value() {
            Ok(m) => J::Array(m.iter().map(|(k, e)| json!([k, elem_json(e)])).collect()),
            Err(e) => json!({"observer_error": format!("{e:?}")}),
        }
    };
}

/// Drive the real incr_merge: old maps, observe, stabilise, new maps, stabilise.
/// Returns {"first": out after run 1, "out": out after run 2, "calls": closure log of run 2}.
macro_rules! run_merge {
    ($mk:expr, $c:expr) => {{
        let mk = $mk;
        let c: &J = $c;
        let (oldl, newl, oldr, newr) =
            (pairs_of(&c["oldl"]), pairs_of(&c["newl"]), pairs_of(&c["oldr"]), pairs_of(&c["newr"]));
        let state = IncrState::new();
        let left = state.var(mk(&oldl));
        let right = state.var(mk(&oldr));
        let log: Rc<RefCell<Vec<J>>> = Rc::new(RefCell::new(vec![]));
        let phase = Rc::new(Cell::new(1u8));
        let (log_, phase_) = (log.clone(), phase.clone());
        let merged = left.incr_merge(&right, move |k: &i64, m: MergeElement<&i64, &i64>| {
            let owned = m.cloned();
            if phase_.get() == 2 {
                let e = elem_json(&owned);
                log_.borrow_mut().push(json!([k, e[0], e[1], e[2]]));
            }
            Some(owned)
        });
        let obs = merged.observe();
        state.stabilise();
        let first = dump_obs!(obs);
        phase.set(2);
        left.set(mk(&newl));
        right.set(mk(&newr));
        state.stabilise();
        let out = dump_obs!(obs);
        let calls = J::Array(log.borrow().clone());
        json!({"first": first, "out": out, "calls": calls})
    }};
}

struct Failure {
    ty: &'static str,
    got: J,
    expect: J,
}

fn run_case(c: &J) -> Vec<Failure> {
    let mut fails = vec![];
    match c["kind"].as_str() {
        Some("diff") => {
            let (m1, m2) = (pairs_of(&c["m1"]), pairs_of(&c["m2"]));
            for (ty, got) in visited_all(&m1, &m2) {
                if got != c["expect"] {
                    fails.push(Failure { ty, got, expect: c["expect"].clone() });
                }
            }
        }
        Some("merge") => {
            let expect = json!({
                "first": merge_def(&pairs_of(&c["oldl"]), &pairs_of(&c["oldr"])),
                "out": c["out"],
                "calls": c["calls"],
            });
            let runs: Vec<(&'static str, J)> = vec![
                ("merge_btree", guarded(|| run_merge!(btree, c))),
                ("merge_ord", guarded(|| run_merge!(ord, c))),
            ];
            for (ty, got) in runs {
                if got != expect {
                    fails.push(Failure { ty, got, expect: expect.clone() });
                }
            }
        }
        k => fails.push(Failure { ty: "harness", got: json!({"unknown_kind": k}), expect: J::Null }),
    }
    fails
}

/// `<<"CASE", "<json string literal>">>` -> case
fn parse_case_line(line: &str) -> Option<J> {
    let line = line.trim();
    let rest = line.strip_prefix("<<\"CASE\", ")?;
    let rest = rest.strip_suffix(">>")?;
    let s: String = serde_json::from_str(rest).ok()?;
    serde_json::from_str(&s).ok()
}

fn random_pair(rng: &mut StdRng, max_keys: i64, max_val: i64) -> (Pairs, Pairs) {
    let nk = rng.gen_range(0..=max_keys);
    let p_present = [0.2, 0.5, 0.8, 1.0][rng.gen_range(0..4)];
    let p_same = [0.0, 0.5, 0.8, 0.95, 1.0][rng.gen_range(0..5)];
    let mut m1 = vec![];
    let mut m2 = vec![];
    for k in 1..=nk {
        let v1 = if rng.gen_bool(p_present) { Some(rng.gen_range(0..=max_val)) } else { None };
        let v2 = if rng.gen_bool(p_same) {
            v1
        } else if rng.gen_bool(p_present) {
            Some(rng.gen_range(0..=max_val))
        } else {
            None
        };
        if let Some(v) = v1 {
            m1.push((k, v));
        }
        if let Some(v) = v2 {
            m2.push((k, v));
        }
    }
    (m1, m2)
}

fn trace_line(m1: &Pairs, m2: &Pairs) -> J {
    let mut vis = serde_json::Map::new();
    for (ty, got) in visited_all(m1, m2) {
        // a panic is reported as a visited sequence that cannot match any definition
        let got = if got.is_array() { got } else { json!([[0, format!("panic:{}", got["panic"]), ABSENT, ABSENT]]) };
        vis.insert(ty.to_string(), got);
    }
    json!({"m1": pairs_json(m1), "m2": pairs_json(m2), "visited": J::Object(vis)})
}

fn main() {
    let args: Vec<String> = std::env::args().collect();
    let mut file = None;
    let mut out_dir: Option<String> = None;
    let mut random: Option<usize> = None;
    let mut seed = 0u64;
    let mut out_trace: Option<String> = None;
    let mut one: Option<String> = None;
    let mut max_keys = 10i64;
    let mut max_val = 3i64;
    let mut i = 1;
    while i < args.len() {
        match args[i].as_str() {
            "--out" => { out_dir = Some(args[i + 1].clone()); i += 1; }
            "--random" => { random = Some(args[i + 1].parse().unwrap()); i += 1; }
            "--seed" => { seed = args[i + 1].parse().unwrap(); i += 1; }
            "--out-trace" => { out_trace = Some(args[i + 1].clone()); i += 1; }
            "--one" => { one = Some(args[i + 1].clone()); i += 1; }
            "--max-keys" => { max_keys = args[i + 1].parse().unwrap(); i += 1; }
            "--max-val" => { max_val = args[i + 1].parse().unwrap(); i += 1; }
            f => file = Some(f.to_string()),
        }
        i += 1;
    }
    std::panic::set_hook(Box::new(|_| {}));

    if let Some(n) = random {
        let path = out_trace.expect("--random needs --out-trace <file>");
        let mut f = std::io::BufWriter::new(std::fs::File::create(&path).expect("create trace"));
        let mut rng = StdRng::seed_from_u64(seed);
        for _ in 0..n {
            let (m1, m2) = random_pair(&mut rng, max_keys, max_val);
            writeln!(f, "{}", trace_line(&m1, &m2)).unwrap();
        }
        f.flush().unwrap();
        println!("{}", json!({"random_pairs": n, "seed": seed, "trace": path}));
        return;
    }

    if let Some(path) = one {
        let j: J = serde_json::from_str(&std::fs::read_to_string(&path).expect("read")).expect("json");
        let failed = match j["kind"].as_str() {
            Some("symdiff-case") => {
                let fails = run_case(&j["case"]);
                let want = j["type"].as_str().unwrap_or("");
                fails.iter().any(|f| want.is_empty() || f.ty == want) as u8
            }
            Some("symdiff-random") => {
                let (m1, m2) = (pairs_of(&j["line"]["m1"]), pairs_of(&j["line"]["m2"]));
                let line = trace_line(&m1, &m2);
                if let Some(t) = &out_trace {
                    std::fs::write(t, format!("{}\n", line)).expect("write trace");
                }
                let def = diff_def(&m1, &m2);
                line["visited"].as_object().unwrap().values().any(|v| *v != def) as u8
            }
            _ => 1,
        };
        println!("{}", json!({"failed": failed}));
        return;
    }

    let file = file.expect("usage: symdiff <cases-file> [--out <dir>] | --random N --seed S --out-trace F | --one <file>");
    let rd = std::io::BufReader::new(std::fs::File::open(&file).expect("open"));
    let mut n = 0usize;
    let mut failed = 0usize;
    let mut nfiles = 0usize;
    let mut by_type: BTreeMap<&'static str, usize> = BTreeMap::new();
    let mut failures: Vec<J> = vec![];
    let mut samples: Vec<J> = vec![];
    for line in rd.lines() {
        let line = line.unwrap();
        let Some(c) = parse_case_line(&line) else { continue };
        n += 1;
        if samples.len() < 2 {
            samples.push(c.clone());
        }
        let fails = run_case(&c);
        if fails.is_empty() {
            continue;
        }
        failed += 1;
        for f in fails {
            let cnt = by_type.entry(f.ty).or_default();
            *cnt += 1;
            let mut rec = json!({"case": c, "type": f.ty, "got": f.got, "expect": f.expect});
            // keep at most 5 replay files per type, smallest inputs come first in TLC's enumeration
            if let (Some(dir), true) = (&out_dir, *cnt <= 5) {
                std::fs::create_dir_all(dir).ok();
                let path = format!("{dir}/case-{nfiles}.json");
                nfiles += 1;
                let mut full = rec.clone();
                full["kind"] = json!("symdiff-case");
                std::fs::write(&path, format!("{}\n", full)).expect("write case file");
                rec["path"] = json!(path);
            }
            if failures.len() < 10 {
                failures.push(rec);
            }
        }
    }
    println!("{}", json!({"cases": n, "failed": failed, "by_type": by_type, "failures": failures, "samples": samples}));
}
