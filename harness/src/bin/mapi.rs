//! mapi -- conformance of the graph-rewiring operators of `incremental-map` (C16, C17):
//! `incr_mapi_`, `incr_filter_mapi_`, `incr_mapi_cutoff`, `incr_filter_mapi_cutoff` on
//! `BTreeMap<i64, i64>` and `im_rc::OrdMap<i64, i64>`, against the behaviours exported by
//! spec/MC_MapiGraph.tla, plus random trace recording for spec/MapiMon.tla.
//!
//!   mapi <replay-file> [--out <dir>]
//!       every `<<"REPLAY", "<json>">>` line is replayed on every instance
//!       (map type x builder shape S1..S5 x map/filter x cutoff none/eq/fn), each in its own
//!       IncrState.  After each stabilise the observed output is compared with the expected map
//!       (mismatch => C16), the builder invocation log and the log of the user's per-key closures
//!       with the expected logs, as multisets, and (shapes S1, S2) the number of nodes the engine
//!       recomputed with the expected number (mismatch => C17).  A panic in any library call =>
//!       C16 (the property promises the output for any sequence), also counted under C04.
//!   mapi --one <failure.json> [--out-trace <file>]
//!       re-run one failure file (kind "mapi": replay + compare on the recorded instance; kind
//!       "mapi-random": re-execute the recorded actions and write a fresh trace for MapiMon).
//!   mapi --random <N> --seed <S> --out-trace <file>
//!       N random longer runs (4-6 keys, values 0..3, outer 0..2, 10-30 actions) on all instances in
//!       lock-step, recorded as ndjson (one line per action) for spec/MapiMon.tla.
//! MAPI_VERBOSE_PANIC=1 keeps the default panic hook (prints the source location of panics).
//!
//! The builder shapes must be the ones of spec/MapiGraph.tla (Val, Keep, Cut):
//!   S1  v.map(x -> 10k + x + 1)                                  None iff x = 0
//!   S2  v.map2(w, (x, w) -> 10k + x + w)                         None iff x + w = 0
//!   S3  v.bind(x -> if x = 0 { w.map(w -> 100 + 10k + w) }       None iff w = 0
//!                  else { constant(10k + x) })                    never None
//!   S4  w.map(w -> 10k + w)            (ignores its input node)  None iff w = 0
//!   S5  one shared node w.map(w -> 100 + w) for every key        None iff w = 0
//! Closure log ("runs"): role "in" = the closure consuming the per-key input node (S1 map, S2
//! map2, S3 bind closure), role "w" = a closure reading only the outer variable (S3 inner map,
//! S4 map, S5 shared map with key 0).
use std::cell::RefCell;
use std::collections::BTreeMap;
use std::io::{BufRead, Write};
use std::panic::{catch_unwind, AssertUnwindSafe};
use std::rc::Rc;

use im_rc::OrdMap;
use incremental::{Cutoff, Incr, IncrState, Observer, Value, Var};
use incremental_map::prelude::*;
use rand::rngs::StdRng;
use rand::{Rng, SeedableRng};
use serde_json::{json, Value as J};

const SHAPES: [&str; 5] = ["S1", "S2", "S3", "S4", "S5"];
const MAP_TYPES: [&str; 2] = ["btree", "ord"];
const CUTS: [&str; 3] = ["none", "eq", "fn"];

// ---------------------------------------------------------------------------------------------
// user functions (mirror of spec/MapiGraph.tla)

fn val(shape: &str, k: i64, x: i64, w: i64) -> i64 {
    match shape {
        "S1" => 10 * k + x + 1,
        "S2" => 10 * k + x + w,
        "S3" => {
            if x == 0 {
                100 + 10 * k + w
            } else {
                10 * k + x
            }
        }
        "S4" => 10 * k + w,
        _ => 100 + w,
    }
}
fn keep(shape: &str, _k: i64, x: i64, w: i64) -> bool {
    match shape {
        "S1" => x != 0,
        "S2" => x + w != 0,
        "S3" => x != 0 || w != 0,
        _ => w != 0,
    }
}
/// the function cutoff of the *_cutoff variants: a new value passes only if it is smaller
fn cut_fn(old: &i64, new: &i64) -> bool {
    *new >= *old
}

/// builder output: i64 for incr_mapi_*, Option<i64> for incr_filter_mapi_*
trait OutV: Value {
    fn mk(shape: &str, k: i64, x: i64, w: i64) -> Self;
}
impl OutV for i64 {
    fn mk(shape: &str, k: i64, x: i64, w: i64) -> Self {
        val(shape, k, x, w)
    }
}
impl OutV for Option<i64> {
    fn mk(shape: &str, k: i64, x: i64, w: i64) -> Self {
        if keep(shape, k, x, w) {
            Some(val(shape, k, x, w))
        } else {
            None
        }
    }
}

type Run = (String, i64);
#[derive(Clone, Default)]
struct Logs {
    calls: Rc<RefCell<Vec<i64>>>,
    runs: Rc<RefCell<Vec<Run>>>,
}
impl Logs {
    fn call(&self, k: i64) {
        self.calls.borrow_mut().push(k);
    }
    fn run(&self, role: &str, k: i64) {
        self.runs.borrow_mut().push((role.to_string(), k));
    }
}

/// The instrumented per-key graph builder of one shape.
fn builder<O: OutV>(shape: &'static str, state: &IncrState, w: &Incr<i64>, logs: &Logs) -> Box<dyn FnMut(&i64, Incr<i64>) -> Incr<O>> {
    let logs = logs.clone();
    let w = w.clone();
    match shape {
        "S1" => Box::new(move |k: &i64, v: Incr<i64>| {
            logs.call(*k);
            let (k, l) = (*k, logs.clone());
            v.map(move |x| {
                l.run("in", k);
                O::mk("S1", k, *x, 0)
            })
        }),
        "S2" => Box::new(move |k: &i64, v: Incr<i64>| {
            logs.call(*k);
            let (k, l) = (*k, logs.clone());
            v.map2(&w, move |x, w| {
                l.run("in", k);
                O::mk("S2", k, *x, *w)
            })
        }),
        "S3" => {
            let st = state.weak();
            Box::new(move |k: &i64, v: Incr<i64>| {
                logs.call(*k);
                let (k, l, w, st) = (*k, logs.clone(), w.clone(), st.clone());
                v.bind(move |x| {
                    l.run("in", k);
                    if *x == 0 {
                        let l2 = l.clone();
                        w.map(move |w| {
                            l2.run("w", k);
                            O::mk("S3", k, 0, *w)
                        })
                    } else {
                        st.constant(O::mk("S3", k, *x, 0))
                    }
                })
            })
        }
        "S4" => Box::new(move |k: &i64, _v: Incr<i64>| {
            logs.call(*k);
            let (k, l) = (*k, logs.clone());
            w.map(move |w| {
                l.run("w", k);
                O::mk("S4", k, 0, *w)
            })
        }),
        _ => {
            let l = logs.clone();
            let shared: Incr<O> = w.map(move |w| {
                l.run("w", 0);
                O::mk("S5", 0, 0, *w)
            });
            Box::new(move |k: &i64, _v: Incr<i64>| {
                logs.call(*k);
                shared.clone()
            })
        }
    }
}

fn cutoff_of(cut: &str) -> Option<Cutoff<i64>> {
    match cut {
        "eq" => Some(Cutoff::PartialEq),
        "fn" => Some(Cutoff::Fn(cut_fn)),
        _ => None,
    }
}

// ---------------------------------------------------------------------------------------------
// map types

trait MapKind: Value {
    fn from_pairs(p: &[(i64, i64)]) -> Self;
    fn pairs(&self) -> Vec<(i64, i64)>;
    fn mapi(vin: &Incr<Self>, f: Box<dyn FnMut(&i64, Incr<i64>) -> Incr<i64>>, cut: Option<Cutoff<i64>>) -> Incr<Self>;
    fn filter_mapi(vin: &Incr<Self>, f: Box<dyn FnMut(&i64, Incr<i64>) -> Incr<Option<i64>>>, cut: Option<Cutoff<i64>>) -> Incr<Self>;
}
impl MapKind for BTreeMap<i64, i64> {
    fn from_pairs(p: &[(i64, i64)]) -> Self {
        p.iter().cloned().collect()
    }
    fn pairs(&self) -> Vec<(i64, i64)> {
        self.iter().map(|(k, v)| (*k, *v)).collect()
    }
    fn mapi(vin: &Incr<Self>, f: Box<dyn FnMut(&i64, Incr<i64>) -> Incr<i64>>, cut: Option<Cutoff<i64>>) -> Incr<Self> {
        match cut {
            None => IncrBTreeMap::incr_mapi_(vin, f),
            Some(c) => IncrBTreeMap::incr_mapi_cutoff(vin, f, c),
        }
    }
    fn filter_mapi(vin: &Incr<Self>, f: Box<dyn FnMut(&i64, Incr<i64>) -> Incr<Option<i64>>>, cut: Option<Cutoff<i64>>) -> Incr<Self> {
        match cut {
            None => IncrBTreeMap::incr_filter_mapi_(vin, f),
            Some(c) => IncrBTreeMap::incr_filter_mapi_cutoff(vin, f, c),
        }
    }
}
impl MapKind for OrdMap<i64, i64> {
    fn from_pairs(p: &[(i64, i64)]) -> Self {
        p.iter().cloned().collect()
    }
    fn pairs(&self) -> Vec<(i64, i64)> {
        self.iter().map(|(k, v)| (*k, *v)).collect()
    }
    fn mapi(vin: &Incr<Self>, f: Box<dyn FnMut(&i64, Incr<i64>) -> Incr<i64>>, cut: Option<Cutoff<i64>>) -> Incr<Self> {
        match cut {
            None => IncrOrdMap::incr_mapi_(vin, f),
            Some(c) => IncrOrdMap::incr_mapi_cutoff(vin, f, c),
        }
    }
    fn filter_mapi(vin: &Incr<Self>, f: Box<dyn FnMut(&i64, Incr<i64>) -> Incr<Option<i64>>>, cut: Option<Cutoff<i64>>) -> Incr<Self> {
        match cut {
            None => IncrOrdMap::incr_filter_mapi_(vin, f),
            Some(c) => IncrOrdMap::incr_filter_mapi_cutoff(vin, f, c),
        }
    }
}

// ---------------------------------------------------------------------------------------------
// instances and sessions

#[derive(Clone, Debug, PartialEq, Eq, PartialOrd, Ord)]
struct Inst {
    mt: &'static str,
    shape: &'static str,
    filter: bool,
    cut: &'static str,
}
impl Inst {
    /// the instance's own name (in traces and failure files)
    fn name(&self) -> String {
        format!("{}.{}.{}", self.shape, if self.filter { "f" } else { "m" }, self.cut)
    }
    /// name of the specification instance whose expectations apply (no cutoff = PartialEq)
    fn spec_name(&self) -> String {
        format!("{}.{}.{}", self.shape, if self.filter { "f" } else { "m" }, if self.cut == "fn" { "fn" } else { "eq" })
    }
}
fn all_insts() -> Vec<Inst> {
    let mut v = vec![];
    for mt in MAP_TYPES {
        for shape in SHAPES {
            for filter in [false, true] {
                for cut in CUTS {
                    v.push(Inst { mt, shape, filter, cut });
                }
            }
        }
    }
    v
}

/// What the instance showed in one stabilise round.
struct Round {
    observed: bool,
    read: Result<J, String>,
    calls: Vec<i64>,
    runs: Vec<Run>,
    /// node recomputations of the stabilise (engine statistic)
    nrec: i64,
}

struct Session<M: MapKind> {
    // field order = drop order: observer first, then the output, the vars, the state
    obs: Option<Observer<M>>,
    out: Incr<M>,
    vin: Var<M>,
    vw: Var<i64>,
    logs: Logs,
    state: IncrState,
}
trait DynSession {
    /// Applies one action; for "stabilise" returns the round.  Err = panic message.
    fn apply(&mut self, a: &J) -> Result<Option<Round>, String>;
}

fn panic_msg(e: Box<dyn std::any::Any + Send>) -> String {
    if let Some(s) = e.downcast_ref::<&str>() {
        s.to_string()
    } else if let Some(s) = e.downcast_ref::<String>() {
        s.clone()
    } else {
        "panic".to_string()
    }
}
fn pairs_from_json(j: &J) -> Vec<(i64, i64)> {
    j.as_array()
        .map(|a| a.iter().map(|p| (p[0].as_i64().unwrap(), p[1].as_i64().unwrap())).collect())
        .unwrap_or_default()
}
fn pairs_json(p: &[(i64, i64)]) -> J {
    J::Array(p.iter().map(|(k, v)| json!([k, v])).collect())
}

impl<M: MapKind> Session<M> {
    fn new(inst: &Inst) -> Result<Self, String> {
        catch_unwind(AssertUnwindSafe(|| {
            let state = IncrState::new();
            let vin = state.var(M::from_pairs(&[]));
            let vw = state.var(0i64);
            let logs = Logs::default();
            let w = vw.watch();
            let cut = cutoff_of(inst.cut);
            let out = if inst.filter {
                M::filter_mapi(&vin.watch(), builder::<Option<i64>>(inst.shape, &state, &w, &logs), cut)
            } else {
                M::mapi(&vin.watch(), builder::<i64>(inst.shape, &state, &w, &logs), cut)
            };
            Session { obs: None, out, vin, vw, logs, state }
        }))
        .map_err(panic_msg)
    }
    fn apply_inner(&mut self, a: &J) -> Option<Round> {
        match a["a"].as_str().unwrap_or("") {
            "set" => {
                self.vin.set(M::from_pairs(&pairs_from_json(&a["m"])));
                None
            }
            "outer" => {
                self.vw.set(a["w"].as_i64().unwrap_or(0));
                None
            }
            "observe" => {
                if self.obs.is_none() {
                    self.obs = Some(self.out.observe());
                }
                None
            }
            "unobserve" => {
                self.obs = None;
                None
            }
            "stabilise" => {
                let before = self.state.stats().recomputed;
                self.state.stabilise();
                let nrec = self.state.stats().recomputed as i64 - before as i64;
                let observed = self.obs.is_some();
                let read = match &self.obs {
                    Some(o) => o.try_get_value().map(|m| pairs_json(&m.pairs())).map_err(|e| format!("{e:?}")),
                    None => Err("unobserved".into()),
                };
                Some(Round {
                    observed,
                    read,
                    calls: std::mem::take(&mut *self.logs.calls.borrow_mut()),
                    runs: std::mem::take(&mut *self.logs.runs.borrow_mut()),
                    nrec,
                })
            }
            _ => None,
        }
    }
}
impl<M: MapKind> DynSession for Session<M> {
    fn apply(&mut self, a: &J) -> Result<Option<Round>, String> {
        catch_unwind(AssertUnwindSafe(|| self.apply_inner(a))).map_err(panic_msg)
    }
}
fn new_session(inst: &Inst) -> Result<Box<dyn DynSession>, String> {
    Ok(match inst.mt {
        "btree" => Box::new(Session::<BTreeMap<i64, i64>>::new(inst)?),
        _ => Box::new(Session::<OrdMap<i64, i64>>::new(inst)?),
    })
}
fn drop_session(s: Box<dyn DynSession>) -> Result<(), String> {
    catch_unwind(AssertUnwindSafe(move || drop(s))).map_err(panic_msg)
}

// ---------------------------------------------------------------------------------------------
// comparison helpers

fn run_json(r: &Run) -> J {
    json!({"role": r.0, "key": r.1})
}
fn runs_json(v: &[Run]) -> J {
    J::Array(v.iter().map(run_json).collect())
}
fn run_from_json(j: &J) -> Run {
    (j["role"].as_str().unwrap_or("?").to_string(), j["key"].as_i64().unwrap_or(-1))
}
fn sorted<T: Ord>(mut v: Vec<T>) -> Vec<T> {
    v.sort();
    v
}
/// The per-key closures of S4 read only the outer variable and sit at the height of the
/// operator's own diff node: when the outer variable changes in the round in which their key is
/// removed they may or may not run before the removal.  Such runs (role "w" on a key that is not
/// in the current input) are outside the property and are ignored on both sides (spec:
/// RelevantRuns).
fn relevant_runs(runs: Vec<Run>, cur: &BTreeMap<i64, i64>) -> Vec<Run> {
    runs.into_iter().filter(|(role, k)| role != "w" || *k == 0 || cur.contains_key(k)).collect()
}

#[derive(Clone)]
struct Mismatch {
    prop: &'static str,
    step: usize,
    what: String,
    panic: bool,
}
fn mismatches_json(ms: &[Mismatch]) -> J {
    J::Array(ms.iter().map(|m| json!({"prop": m.prop, "step": m.step, "what": m.what, "panic": m.panic})).collect())
}

/// Replays one behaviour on one instance.
fn replay_on(hist: &[J], inst: &Inst) -> Vec<Mismatch> {
    let tag = format!("[{} {}]", inst.mt, inst.name());
    let mut ms = vec![];
    let mut sess = match new_session(inst) {
        Ok(s) => s,
        Err(p) => return vec![Mismatch { prop: "C16", step: 0, what: format!("{tag} panic creating the operator: {p}"), panic: true }],
    };
    let mut cur: BTreeMap<i64, i64> = BTreeMap::new();
    let spec_name = inst.spec_name();
    for (i, a) in hist.iter().enumerate() {
        if a["a"] == "set" {
            cur = pairs_from_json(&a["m"]).into_iter().collect();
        }
        let exp = if a["a"] == "stabilise" { a["expect"].get(spec_name.as_str()) } else { None };
        let exp_panic = exp.map_or(false, |e| e["panic"] == json!(true));
        let r = match sess.apply(a) {
            Ok(r) => r,
            Err(p) => {
                if !exp_panic {
                    ms.push(Mismatch { prop: "C16", step: i, what: format!("{tag} panic in {}: {p}", a["a"]), panic: true });
                }
                // the engine state may be inconsistent after a panic: a second panic while it is
                // torn down is of no interest (but the memory is: there are many such sessions)
                let _ = drop_session(sess);
                return ms;
            }
        };
        let Some(rd) = r else { continue };
        if exp_panic {
            ms.push(Mismatch { prop: "C16", step: i, what: format!("{tag} the model of the code predicts a panic here, the code did not panic"), panic: false });
            continue;
        }
        match (rd.observed, exp) {
            (true, Some(e)) => {
                match &rd.read {
                    Ok(out) => {
                        if out != &e["out"] {
                            ms.push(Mismatch { prop: "C16", step: i, what: format!("{tag} observed {out} expected {}", e["out"]), panic: false });
                        }
                    }
                    Err(err) => ms.push(Mismatch { prop: "C16", step: i, what: format!("{tag} observer error {err}, expected {}", e["out"]), panic: false }),
                }
                let exp_calls = sorted(e["calls"].as_array().map_or(vec![], |v| v.iter().map(|x| x.as_i64().unwrap_or(-1)).collect()));
                let got_calls = sorted(rd.calls.clone());
                if got_calls != exp_calls {
                    ms.push(Mismatch { prop: "C17", step: i, what: format!("{tag} builder invoked for keys {got_calls:?} expected {exp_calls:?}"), panic: false });
                }
                let exp_runs = sorted(relevant_runs(e["runs"].as_array().map_or(vec![], |v| v.iter().map(run_from_json).collect()), &cur));
                let got_runs = sorted(relevant_runs(rd.runs.clone(), &cur));
                if got_runs != exp_runs {
                    ms.push(Mismatch {
                        prop: "C17",
                        step: i,
                        what: format!("{tag} per-key closures run {} expected {}", runs_json(&got_runs), runs_json(&exp_runs)),
                        panic: false,
                    });
                }
                if let Some(n) = e["nrec"].as_i64() {
                    if rd.nrec != n {
                        ms.push(Mismatch { prop: "C17", step: i, what: format!("{tag} {} nodes recomputed in this stabilise, expected {n}", rd.nrec), panic: false });
                    }
                }
            }
            (true, None) => ms.push(Mismatch { prop: "C16", step: i, what: format!("{tag} observed in the harness but no expectation exported"), panic: false }),
            (false, _) => {
                if !rd.calls.is_empty() || !rd.runs.is_empty() || rd.nrec != 0 {
                    ms.push(Mismatch {
                        prop: "C17",
                        step: i,
                        what: format!("{tag} work done while unobserved: builder {:?}, closures {}, {} nodes recomputed", rd.calls, runs_json(&rd.runs), rd.nrec),
                        panic: false,
                    });
                }
            }
        }
    }
    if let Err(p) = drop_session(sess) {
        ms.push(Mismatch { prop: "C16", step: hist.len(), what: format!("{tag} panic on drop: {p}"), panic: true });
    }
    ms
}

/// Parse a TLC `<<"REPLAY", "<json>">>` line (or a bare JSON array).
fn parse_line(line: &str) -> Option<Vec<J>> {
    let line = line.trim();
    if line.starts_with('[') {
        return serde_json::from_str::<J>(line).ok()?.as_array().cloned();
    }
    let rest = line.strip_prefix("<<\"REPLAY\", ")?.strip_suffix(">>")?;
    let inner: String = serde_json::from_str(rest).ok()?;
    serde_json::from_str::<J>(&inner).ok()?.as_array().cloned()
}

fn nontrivial(hist: &[J]) -> bool {
    hist.iter().any(|a| {
        a["a"] == "stabilise"
            && a["expect"].as_object().map_or(false, |o| o.values().any(|e| e["calls"].as_array().map_or(false, |c| !c.is_empty())))
    })
}

fn main_replay(file: &str, out_dir: Option<String>) {
    let rd = std::io::BufReader::new(std::fs::File::open(file).expect("open replay file"));
    let insts = all_insts();
    let (mut n, mut bad, mut nontriv, mut sessions, mut panics) = (0usize, 0usize, 0usize, 0usize, 0usize);
    let mut by_prop: BTreeMap<String, usize> = BTreeMap::new();
    let mut by_shape: BTreeMap<String, usize> = BTreeMap::new();
    let mut file_count: BTreeMap<(String, String), usize> = BTreeMap::new();
    let mut failures: Vec<J> = vec![];
    let mut samples: Vec<J> = vec![];
    for line in rd.lines() {
        let line = line.unwrap();
        let Some(hist) = parse_line(&line) else { continue };
        n += 1;
        if nontrivial(&hist) {
            nontriv += 1;
            if samples.len() < 2 && n % 997 == 1 {
                samples.push(J::Array(hist.clone()));
            }
        }
        let mut failed = false;
        for inst in &insts {
            sessions += 1;
            let ms = replay_on(&hist, inst);
            if ms.is_empty() {
                continue;
            }
            failed = true;
            *by_shape.entry(format!("{} {}", inst.shape, if ms.iter().any(|m| m.panic) { "panic" } else { "mismatch" })).or_default() += 1;
            let mut props: Vec<&str> = vec![];
            for m in &ms {
                *by_prop.entry(m.prop.to_string()).or_default() += 1;
                if m.panic {
                    panics += 1;
                    *by_prop.entry("C04".to_string()).or_default() += 1;
                }
                if !props.contains(&m.prop) {
                    props.push(m.prop);
                }
            }
            for p in props {
                // at most 3 files per (property, shape)
                let cnt = file_count.entry((p.to_string(), inst.shape.to_string())).or_default();
                if *cnt >= 3 {
                    continue;
                }
                let first = ms.iter().find(|m| m.prop == p).unwrap();
                let mut path = String::new();
                if let Some(dir) = &out_dir {
                    std::fs::create_dir_all(format!("{dir}/{p}")).ok();
                    path = format!("{dir}/{p}/mapi-{}-{}.json", inst.shape, *cnt);
                    // the prefix up to the failing step reproduces the failure
                    let prefix: Vec<J> = hist.iter().take(first.step + 1).cloned().collect();
                    let rec = json!({"kind": "mapi", "hist": prefix, "maptype": inst.mt, "shape": inst.shape,
                        "filter": inst.filter, "cut": inst.cut,
                        "mismatch": format!("step {}: {}", first.step, first.what),
                        "mismatches": mismatches_json(&ms)});
                    let mut f = std::fs::File::create(&path).unwrap();
                    writeln!(f, "{rec}").unwrap();
                }
                *cnt += 1;
                failures.push(json!({"prop": p, "path": path, "first": format!("step {}: {}", first.step, first.what)}));
            }
        }
        if failed {
            bad += 1;
        }
    }
    println!(
        "{}",
        json!({"behaviours": n, "nontrivial": nontriv, "failed": bad, "by_prop": by_prop, "by_shape": by_shape,
               "sessions": sessions, "panics": panics, "failures": failures, "samples": samples})
    );
}

// ---------------------------------------------------------------------------------------------
// trace recording (random runs, and re-execution of a recorded run)

/// Runs the actions in lock-step on all instances and returns the trace lines.
fn record_run(run: usize, actions: &[J]) -> Vec<J> {
    let insts = all_insts();
    let mut lines = vec![json!({"a": "reset", "run": run})];
    let mut sessions: Vec<(Inst, Option<Box<dyn DynSession>>)> = vec![];
    for inst in insts {
        match new_session(&inst) {
            Ok(s) => sessions.push((inst, Some(s))),
            Err(p) => {
                lines.push(json!({"a": "panic", "run": run, "inst": inst.name(), "shape": inst.shape, "mt": inst.mt, "msg": p, "during": "create"}));
                sessions.push((inst, None));
            }
        }
    }
    for a in actions {
        let mut line = a.clone();
        line["run"] = json!(run);
        let mut obs: Vec<J> = vec![];
        let mut panic_lines: Vec<J> = vec![];
        for (inst, slot) in sessions.iter_mut() {
            let Some(s) = slot.as_mut() else { continue };
            match s.apply(a) {
                Ok(None) => {}
                Ok(Some(rd)) => {
                    let (out, err) = match rd.read {
                        Ok(o) => (o, String::new()),
                        Err(e) => (json!([]), if rd.observed { e } else { String::new() }),
                    };
                    obs.push(json!({"inst": inst.name(), "shape": inst.shape, "filter": inst.filter, "cut": inst.cut,
                        "mt": inst.mt, "observed": rd.observed, "err": err, "out": out,
                        "calls": rd.calls, "runs": runs_json(&rd.runs), "nrec": rd.nrec}));
                }
                Err(p) => {
                    // this instance is dead from here on; the others continue
                    panic_lines.push(json!({"a": "panic", "run": run, "inst": inst.name(), "shape": inst.shape, "mt": inst.mt,
                        "msg": p, "during": a["a"]}));
                    if let Some(dead) = slot.take() {
                        let _ = drop_session(dead);
                    }
                }
            }
        }
        if a["a"] == "stabilise" {
            line["obs"] = J::Array(obs);
        }
        // the panic lines come first: the monitor marks the instances dead before judging the line
        lines.extend(panic_lines);
        lines.push(line);
    }
    for (inst, slot) in sessions {
        if let Some(s) = slot {
            if let Err(p) = drop_session(s) {
                lines.push(json!({"a": "panic", "run": run, "inst": inst.name(), "shape": inst.shape, "mt": inst.mt, "msg": p, "during": "drop"}));
            }
        }
    }
    lines
}

fn random_actions(rng: &mut StdRng) -> Vec<J> {
    let nk: i64 = rng.gen_range(4..=6);
    let n_actions = rng.gen_range(10..=30);
    let mut cur: BTreeMap<i64, i64> = BTreeMap::new();
    let mut observed = false;
    let mut acts: Vec<J> = vec![];
    let m_json = |m: &BTreeMap<i64, i64>| J::Array(m.iter().map(|(k, v)| json!([k, v])).collect());
    if rng.gen_bool(0.8) {
        observed = true;
        acts.push(json!({"a": "observe"}));
    }
    if rng.gen_bool(0.8) {
        cur = (1..=nk).filter_map(|k| if rng.gen_bool(0.6) { Some((k, rng.gen_range(0..4))) } else { None }).collect();
        acts.push(json!({"a": "set", "m": m_json(&cur)}));
    }
    acts.push(json!({"a": "stabilise"}));
    while acts.len() < n_actions {
        let x: f64 = rng.gen();
        if x < 0.40 {
            let y: f64 = rng.gen();
            if y < 0.08 {
                cur.clear();
            } else if y < 0.18 {
                cur = (1..=nk).filter_map(|k| if rng.gen_bool(0.7) { Some((k, rng.gen_range(0..4))) } else { None }).collect();
            } else if y < 0.23 {
                // set to the same map
            } else {
                for _ in 0..rng.gen_range(1..=3) {
                    let k = rng.gen_range(1..=nk);
                    if cur.contains_key(&k) && rng.gen_bool(0.4) {
                        cur.remove(&k);
                    } else {
                        cur.insert(k, rng.gen_range(0..4));
                    }
                }
            }
            acts.push(json!({"a": "set", "m": m_json(&cur)}));
        } else if x < 0.52 {
            acts.push(json!({"a": "outer", "w": rng.gen_range(0..3)}));
        } else if x < 0.82 {
            acts.push(json!({"a": "stabilise"}));
        } else if observed {
            observed = false;
            acts.push(json!({"a": "unobserve"}));
        } else {
            observed = true;
            acts.push(json!({"a": "observe"}));
        }
    }
    if !observed {
        acts.push(json!({"a": "observe"}));
    }
    acts.push(json!({"a": "stabilise"}));
    acts
}

fn write_lines(path: &str, lines: &[J]) {
    let mut f = std::io::BufWriter::new(std::fs::File::create(path).expect("create trace"));
    for l in lines {
        writeln!(f, "{l}").unwrap();
    }
}

fn main_random(n: usize, seed: u64, out_trace: &str) {
    let mut rng = StdRng::seed_from_u64(seed);
    let mut all = vec![];
    let mut panics = 0usize;
    for run in 0..n {
        let acts = random_actions(&mut rng);
        let lines = record_run(run, &acts);
        panics += lines.iter().filter(|l| l["a"] == "panic").count();
        all.extend(lines);
    }
    write_lines(out_trace, &all);
    println!("{}", json!({"random_runs": n, "seed": seed, "lines": all.len(), "panics": panics, "trace": out_trace}));
}

fn main_one(path: &str, out_trace: Option<String>) {
    let txt = std::fs::read_to_string(path).expect("read failure file");
    let rec: J = serde_json::from_str(txt.trim()).expect("failure file is JSON");
    match rec["kind"].as_str().unwrap_or("") {
        "mapi" => {
            let hist = rec["hist"].as_array().cloned().unwrap_or_default();
            let insts: Vec<Inst> = all_insts()
                .into_iter()
                .filter(|i| {
                    rec["maptype"].as_str().map_or(true, |m| m == i.mt)
                        && rec["shape"].as_str().map_or(true, |s| s == i.shape)
                        && rec["filter"].as_bool().map_or(true, |f| f == i.filter)
                        && rec["cut"].as_str().map_or(true, |c| c == i.cut)
                })
                .collect();
            let mut ms = vec![];
            for inst in &insts {
                ms.extend(replay_on(&hist, inst));
            }
            println!("{}", json!({"kind": "mapi", "reproduced": !ms.is_empty(), "instances": insts.len(), "mismatches": mismatches_json(&ms)}));
        }
        "mapi-random" => {
            let acts: Vec<J> = rec["lines"]
                .as_array()
                .cloned()
                .unwrap_or_default()
                .into_iter()
                .filter(|l| matches!(l["a"].as_str(), Some("set") | Some("outer") | Some("observe") | Some("unobserve") | Some("stabilise")))
                .map(|mut l| {
                    if let Some(o) = l.as_object_mut() {
                        o.remove("obs");
                        o.remove("run");
                    }
                    l
                })
                .collect();
            let lines = record_run(0, &acts);
            let out = out_trace.expect("--out-trace <file> required for kind mapi-random");
            write_lines(&out, &lines);
            println!("{}", json!({"kind": "mapi-random", "lines": lines.len(), "trace": out,
                                  "panics": lines.iter().filter(|l| l["a"] == "panic").count()}));
        }
        k => {
            eprintln!("unknown kind {k:?}");
            std::process::exit(2);
        }
    }
}

fn main() {
    let args: Vec<String> = std::env::args().collect();
    let (mut file, mut out_dir, mut one, mut random, mut seed, mut out_trace) = (None, None, None, None, 1u64, None);
    let mut i = 1;
    while i < args.len() {
        match args[i].as_str() {
            "--out" => { out_dir = Some(args[i + 1].clone()); i += 1; }
            "--one" => { one = Some(args[i + 1].clone()); i += 1; }
            "--random" => { random = Some(args[i + 1].parse::<usize>().expect("--random N")); i += 1; }
            "--seed" => { seed = args[i + 1].parse::<u64>().expect("--seed S"); i += 1; }
            "--out-trace" => { out_trace = Some(args[i + 1].clone()); i += 1; }
            f => file = Some(f.to_string()),
        }
        i += 1;
    }
    if std::env::var_os("MAPI_VERBOSE_PANIC").is_none() {
        std::panic::set_hook(Box::new(|_| {}));
    }
    if let Some(p) = one {
        main_one(&p, out_trace);
    } else if let Some(n) = random {
        main_random(n, seed, &out_trace.expect("--out-trace <file> required with --random"));
    } else {
        main_replay(&file.expect("usage: mapi <replay-file> [--out <dir>] | --one <path> | --random N --seed S --out-trace <file>"), out_dir);
    }
}
