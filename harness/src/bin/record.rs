//! record --scripts <file> --out <trace.ndjson> [--k K] [--maxh H]
//! Executes scripts (JSON arrays of actions, or TLC REPLAY lines) against the real crates and
//! records an ndjson trace (action + observations + engine snapshot) for IncrTrace.tla.
use std::io::{BufRead, Write};
use verif_harness::{parse_behaviour_line, session::record_script, val};

fn main() {
    let args: Vec<String> = std::env::args().collect();
    let mut scripts = None;
    let mut out = None;
    let mut maxh = None;
    let mut limit = usize::MAX;
    let mut i = 1;
    while i < args.len() {
        match args[i].as_str() {
            "--scripts" => { scripts = Some(args[i + 1].clone()); i += 1; }
            "--out" => { out = Some(args[i + 1].clone()); i += 1; }
            "--k" => { val::K.with(|k| k.set(args[i + 1].parse().unwrap())); i += 1; }
            "--maxh" => { maxh = Some(args[i + 1].parse::<usize>().unwrap()); i += 1; }
            "--limit" => { limit = args[i + 1].parse().unwrap(); i += 1; }
            other => panic!("unknown arg {other}"),
        }
        i += 1;
    }
    std::panic::set_hook(Box::new(|_| {}));
    let rd = std::io::BufReader::new(std::fs::File::open(scripts.expect("--scripts")).expect("open"));
    let mut lines = vec![];
    let mut run = 0;
    for line in rd.lines() {
        let line = line.unwrap();
        let Some(script) = parse_behaviour_line(&line) else { continue };
        run += 1;
        if run > limit { break; }
        record_script(&script, maxh, run, &mut lines);
    }
    let mut f = std::io::BufWriter::new(std::fs::File::create(out.expect("--out")).unwrap());
    for l in &lines {
        writeln!(f, "{l}").unwrap();
    }
    eprintln!("recorded {} runs, {} events", run, lines.len());
    let errs = verif_harness::session::HARNESS_ERRORS.with(|h| h.borrow().clone());
    if !errs.is_empty() {
        eprintln!("HARNESS-ERROR ({}): {}", errs.len(), errs[0]);
        std::process::exit(3);
    }
}
