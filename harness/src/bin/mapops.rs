//! mapops -- conformance of the diff-based operators of `incremental-map` (C15, C17) against
//! the behaviours exported by spec/MC_MapOps.tla, plus random trace recording for spec/MapMon.tla.
//!
//!   mapops <replay-file> [--out <dir>]
//!       every `<<"REPLAY", "<json>">>` line is replayed against the real operators on every map
//!       type the operator is defined for (BTreeMap, Rc<BTreeMap>, im_rc::OrdMap).  After each
//!       stabilise the observer values (the operator itself and a dependant `op.map(clone)`) are
//!       compared with the expected output (mismatch => C15) and the invocation log of the
//!       instrumented user functions with the expected calls, as multisets (mismatch => C17).
//!       A panic in any library call => C04.
//!   mapops --one <failure.json> [--out-trace <file>]
//!       re-run one failure file (kind "mapops": replay + compare; kind "mapops-random":
//!       re-execute the recorded actions and write a fresh trace for MapMon).
//!   mapops --random <N> --seed <S> --out-trace <file>
//!       N random longer runs (4-6 keys, values 0..3, 10-30 actions; edits of 1-3 keys, emptying,
//!       refilling, same map, zeroing all values, edits invisible through the chains' first stage)
//!       on all operators (chains included) and all
//!       map types, recorded as ndjson (one line per action) for spec/MapMon.tla.
//!
//! The user functions here must be the ones of spec/MapOps.tla (FmF, W / FW, PartF, MergeF).
//!
//! "fold_sum" / "fold_sum_upd" are plain sums (init 0, add = acc + v, remove = acc - v, update =
//! acc - old + new): a non-empty map can fold to init.  "chain_fm_map" / "chain_fm_fold" chain two
//! diff-based operators, `input.incr_filter_map(f).incr_map(g)` and
//! `input.incr_filter_map(f).incr_unordered_fold(plain sum)`: the observed node is the second
//! stage; the calls of both stages go to one log, role "f" = first stage, "g" / "add" / "remove" =
//! second stage.
use std::cell::RefCell;
use std::collections::{BTreeMap, BTreeSet};
use std::io::{BufRead, Write};
use std::panic::{catch_unwind, AssertUnwindSafe};
use std::rc::Rc;

use im_rc::OrdMap;
use incremental::{Incr, IncrState, Observer, Value, Var};
use incremental_map::prelude::*;
use rand::rngs::StdRng;
use rand::{Rng, SeedableRng};
use serde_json::{json, Value as J};

// ---------------------------------------------------------------------------------------------
// user functions (mirror of spec/MapOps.tla)

const ALL_OPS: [&str; 15] = [
    "map", "filter_map", "mapi", "filter_mapi", "fold", "fold_rev", "fold_upd", "fold_upd_rev",
    "merge", "partition", "partition_mapi", "fold_sum", "fold_sum_upd", "chain_fm_map", "chain_fm_fold",
];
const MAP_TYPES: [&str; 3] = ["btree", "rc", "ord"];
const FOLD_INIT: i64 = 3;

fn w(k: i64, v: i64) -> i64 {
    (v + 1) * 5i64.pow((k - 1) as u32)
}
/// first stage of the chains (FmF "chain_f")
fn chain_f(v: i64) -> Option<i64> {
    if v % 2 == 0 { None } else { Some(v + 10) }
}
fn merge_f(e: MergeElement<&i64, &i64>) -> (Vec<i64>, Option<i64>) {
    match e {
        MergeElement::Left(l) => (vec![1, *l, 0], Some(1000 + *l)),
        MergeElement::Right(r) => (vec![2, 0, *r], Some(2000 + *r)),
        MergeElement::Both(l, r) => (
            vec![3, *l, *r],
            if *l + *r == 0 { None } else { Some(3000 + 10 * *l + *r) },
        ),
    }
}

type Call = (String, i64, Vec<i64>);
type Calls = Rc<RefCell<Vec<Call>>>;
fn log(c: &Calls, role: &str, key: i64, args: Vec<i64>) {
    c.borrow_mut().push((role.to_string(), key, args));
}
fn call_json(c: &Call) -> J {
    json!({"role": c.0, "key": c.1, "args": c.2})
}
fn call_from_json(j: &J) -> Call {
    (
        j["role"].as_str().unwrap_or("?").to_string(),
        j["key"].as_i64().unwrap_or(-1),
        j["args"].as_array().map_or(vec![], |a| a.iter().map(|x| x.as_i64().unwrap_or(-1)).collect()),
    )
}

// ---------------------------------------------------------------------------------------------
// map types

trait Pairs {
    fn pairs(&self) -> Vec<(i64, i64)>;
}
impl Pairs for BTreeMap<i64, i64> {
    fn pairs(&self) -> Vec<(i64, i64)> {
        self.iter().map(|(k, v)| (*k, *v)).collect()
    }
}
impl Pairs for Rc<BTreeMap<i64, i64>> {
    fn pairs(&self) -> Vec<(i64, i64)> {
        self.iter().map(|(k, v)| (*k, *v)).collect()
    }
}
impl Pairs for OrdMap<i64, i64> {
    fn pairs(&self) -> Vec<(i64, i64)> {
        self.iter().map(|(k, v)| (*k, *v)).collect()
    }
}
fn pairs_json<P: Pairs>(p: &P) -> J {
    J::Array(p.pairs().iter().map(|(k, v)| json!([k, v])).collect())
}
fn int_json(x: &i64) -> J {
    json!(x)
}
fn pair_of_maps_json(t: &(OrdMap<i64, i64>, OrdMap<i64, i64>)) -> J {
    json!([pairs_json(&t.0), pairs_json(&t.1)])
}

/// One operator instance: the operator node, a dependant `map(clone)` of it (which re-runs only
/// when the operator reports did_change), and the observers of both while observed.
struct OpT<T: Value> {
    incr: Incr<T>,
    down: Incr<T>,
    obs: Option<(Observer<T>, Observer<T>)>,
    to_json: fn(&T) -> J,
    calls: Calls,
}
trait DynOp {
    fn observe(&mut self);
    fn unobserve(&mut self);
    fn observed(&self) -> bool;
    /// (direct value, value through the dependant); Err = observer error text
    fn read(&self) -> Result<(J, J), String>;
    fn take_calls(&self) -> Vec<Call>;
}
impl<T: Value> DynOp for OpT<T> {
    fn observe(&mut self) {
        if self.obs.is_none() {
            self.obs = Some((self.incr.observe(), self.down.observe()));
        }
    }
    fn unobserve(&mut self) {
        self.obs = None;
    }
    fn observed(&self) -> bool {
        self.obs.is_some()
    }
    fn read(&self) -> Result<(J, J), String> {
        let (a, b) = self.obs.as_ref().ok_or_else(|| "not observed".to_string())?;
        let x = a.try_get_value().map_err(|e| format!("{e:?}"))?;
        let y = b.try_get_value().map_err(|e| format!("{e:?}"))?;
        Ok(((self.to_json)(&x), (self.to_json)(&y)))
    }
    fn take_calls(&self) -> Vec<Call> {
        std::mem::take(&mut *self.calls.borrow_mut())
    }
}
fn mk_op<T: Value>(incr: Incr<T>, to_json: fn(&T) -> J, calls: Calls) -> Box<dyn DynOp> {
    let down = incr.map(|x| x.clone());
    Box::new(OpT { incr, down, obs: None, to_json, calls })
}

trait MapKind: Value + Pairs + SymmetricFoldMap<i64, i64> + SymmetricMapMap<i64, i64> {
    const NAME: &'static str;
    fn from_pairs(p: &[(i64, i64)]) -> Self;
    /// operators that exist only for this concrete type (incr_merge, incr_partition(_mapi))
    fn special(name: &str, vin: &Incr<Self>, l: &Incr<Self>, r: &Incr<Self>, calls: Calls) -> Option<Box<dyn DynOp>>;
    /// the operators of trait IncrMap (blanket impl over SymmetricFoldMap + SymmetricMapMap)
    fn generic(name: &str, vin: &Incr<Self>, calls: Calls) -> Option<Box<dyn DynOp>>;
}

/// The IncrMap operators; a macro because the output map type is a GAT of the input type.
macro_rules! generic_ops {
    ($name:expr, $vin:expr, $calls:expr, $M:ty, $Out:ty) => {{
        let name: &str = $name;
        let vin: &Incr<$M> = $vin;
        let c: Calls = $calls;
        let c2 = c.clone();
        let c3 = c.clone();
        let c4 = c.clone();
        match name {
            "map" => Some(mk_op::<$Out>(
                vin.incr_map(move |v: &i64| {
                    log(&c2, "f", 0, vec![*v]);
                    *v + 1
                }),
                pairs_json::<$Out>,
                c,
            )),
            "filter_map" => Some(mk_op::<$Out>(
                vin.incr_filter_map(move |v: &i64| {
                    log(&c2, "f", 0, vec![*v]);
                    if *v == 0 { None } else { Some(*v + 10) }
                }),
                pairs_json::<$Out>,
                c,
            )),
            "mapi" => Some(mk_op::<$Out>(
                vin.incr_mapi(move |k: &i64, v: &i64| {
                    log(&c2, "f", *k, vec![*v]);
                    10 * *k + *v
                }),
                pairs_json::<$Out>,
                c,
            )),
            "filter_mapi" => Some(mk_op::<$Out>(
                vin.incr_filter_mapi(move |k: &i64, v: &i64| {
                    log(&c2, "f", *k, vec![*v]);
                    if (*k + *v) % 2 == 0 { None } else { Some(10 * *k + *v) }
                }),
                pairs_json::<$Out>,
                c,
            )),
            "fold" | "fold_rev" => Some(mk_op::<i64>(
                vin.incr_unordered_fold(
                    FOLD_INIT,
                    move |acc: i64, k: &i64, v: &i64| {
                        log(&c2, "add", *k, vec![*v]);
                        acc + w(*k, *v)
                    },
                    move |acc: i64, k: &i64, v: &i64| {
                        log(&c3, "remove", *k, vec![*v]);
                        acc - w(*k, *v)
                    },
                    name == "fold_rev",
                ),
                int_json,
                c,
            )),
            "fold_upd" | "fold_upd_rev" => Some(mk_op::<i64>(
                vin.incr_unordered_fold_update(
                    FOLD_INIT,
                    move |acc: i64, k: &i64, v: &i64| {
                        log(&c2, "add", *k, vec![*v]);
                        acc + w(*k, *v)
                    },
                    move |acc: i64, k: &i64, v: &i64| {
                        log(&c3, "remove", *k, vec![*v]);
                        acc - w(*k, *v)
                    },
                    move |acc: i64, k: &i64, old: &i64, new: &i64| {
                        log(&c4, "update", *k, vec![*old, *new]);
                        acc - w(*k, *old) + w(*k, *new)
                    },
                    name == "fold_upd_rev",
                ),
                int_json,
                c,
            )),
            "fold_sum" => Some(mk_op::<i64>(
                vin.incr_unordered_fold(
                    0i64,
                    move |acc: i64, k: &i64, v: &i64| {
                        log(&c2, "add", *k, vec![*v]);
                        acc + *v
                    },
                    move |acc: i64, k: &i64, v: &i64| {
                        log(&c3, "remove", *k, vec![*v]);
                        acc - *v
                    },
                    false,
                ),
                int_json,
                c,
            )),
            "fold_sum_upd" => Some(mk_op::<i64>(
                vin.incr_unordered_fold_update(
                    0i64,
                    move |acc: i64, k: &i64, v: &i64| {
                        log(&c2, "add", *k, vec![*v]);
                        acc + *v
                    },
                    move |acc: i64, k: &i64, v: &i64| {
                        log(&c3, "remove", *k, vec![*v]);
                        acc - *v
                    },
                    move |acc: i64, k: &i64, old: &i64, new: &i64| {
                        log(&c4, "update", *k, vec![*old, *new]);
                        acc - *old + *new
                    },
                    false,
                ),
                int_json,
                c,
            )),
            "chain_fm_map" => {
                let mid: Incr<$Out> = vin.incr_filter_map(move |v: &i64| {
                    log(&c2, "f", 0, vec![*v]);
                    chain_f(*v)
                });
                Some(mk_op::<$Out>(
                    mid.incr_map(move |x: &i64| {
                        log(&c3, "g", 0, vec![*x]);
                        *x + 100
                    }),
                    pairs_json::<$Out>,
                    c,
                ))
            }
            "chain_fm_fold" => {
                let mid: Incr<$Out> = vin.incr_filter_map(move |v: &i64| {
                    log(&c2, "f", 0, vec![*v]);
                    chain_f(*v)
                });
                Some(mk_op::<i64>(
                    mid.incr_unordered_fold(
                        0i64,
                        move |acc: i64, k: &i64, x: &i64| {
                            log(&c3, "add", *k, vec![*x]);
                            acc + *x
                        },
                        move |acc: i64, k: &i64, x: &i64| {
                            log(&c4, "remove", *k, vec![*x]);
                            acc - *x
                        },
                        false,
                    ),
                    int_json,
                    c,
                ))
            }
            _ => None,
        }
    }};
}

macro_rules! merge_op {
    ($l:expr, $r:expr, $calls:expr, $Out:ty) => {{
        let c: Calls = $calls;
        let c2 = c.clone();
        mk_op::<$Out>(
            $l.incr_merge($r, move |k: &i64, e: MergeElement<&i64, &i64>| {
                let (args, out) = merge_f(e);
                log(&c2, "merge", *k, args);
                out
            }),
            pairs_json::<$Out>,
            c,
        )
    }};
}

impl MapKind for BTreeMap<i64, i64> {
    const NAME: &'static str = "btree";
    fn from_pairs(p: &[(i64, i64)]) -> Self {
        p.iter().cloned().collect()
    }
    fn generic(name: &str, vin: &Incr<Self>, calls: Calls) -> Option<Box<dyn DynOp>> {
        generic_ops!(name, vin, calls, BTreeMap<i64, i64>, BTreeMap<i64, i64>)
    }
    fn special(name: &str, _vin: &Incr<Self>, l: &Incr<Self>, r: &Incr<Self>, calls: Calls) -> Option<Box<dyn DynOp>> {
        match name {
            "merge" => Some(merge_op!(l, r, calls, BTreeMap<i64, i64>)),
            _ => None,
        }
    }
}
impl MapKind for Rc<BTreeMap<i64, i64>> {
    const NAME: &'static str = "rc";
    fn from_pairs(p: &[(i64, i64)]) -> Self {
        Rc::new(p.iter().cloned().collect())
    }
    fn generic(name: &str, vin: &Incr<Self>, calls: Calls) -> Option<Box<dyn DynOp>> {
        generic_ops!(name, vin, calls, Rc<BTreeMap<i64, i64>>, Rc<BTreeMap<i64, i64>>)
    }
    fn special(_: &str, _: &Incr<Self>, _: &Incr<Self>, _: &Incr<Self>, _: Calls) -> Option<Box<dyn DynOp>> {
        None
    }
}
impl MapKind for OrdMap<i64, i64> {
    const NAME: &'static str = "ord";
    fn from_pairs(p: &[(i64, i64)]) -> Self {
        p.iter().cloned().collect()
    }
    fn generic(name: &str, vin: &Incr<Self>, calls: Calls) -> Option<Box<dyn DynOp>> {
        generic_ops!(name, vin, calls, OrdMap<i64, i64>, OrdMap<i64, i64>)
    }
    fn special(name: &str, vin: &Incr<Self>, l: &Incr<Self>, r: &Incr<Self>, calls: Calls) -> Option<Box<dyn DynOp>> {
        let c2 = calls.clone();
        match name {
            "merge" => Some(merge_op!(l, r, calls, OrdMap<i64, i64>)),
            "partition" => Some(mk_op(
                vin.incr_partition(move |k: &i64, v: &i64| {
                    log(&c2, "f", *k, vec![*v]);
                    (*k + *v) % 2 == 0
                }),
                pair_of_maps_json,
                calls,
            )),
            "partition_mapi" => Some(mk_op(
                vin.incr_partition_mapi(move |k: &i64, v: &i64| {
                    log(&c2, "f", *k, vec![*v]);
                    if *v == 0 { Either::Left(10 * *k) } else { Either::Right(100 + 10 * *k + *v) }
                }),
                pair_of_maps_json,
                calls,
            )),
            _ => None,
        }
    }
}

// ---------------------------------------------------------------------------------------------
// sessions

/// What one operator showed in one stabilise round.
struct Round {
    observed: bool,
    read: Result<(J, J), String>,
    calls: Vec<Call>,
}

struct Session<M: MapKind> {
    // field order = drop order: observers (inside ops) first, then vars, then the state
    ops: BTreeMap<String, Box<dyn DynOp>>,
    vars: BTreeMap<&'static str, Var<M>>,
    state: IncrState,
}

trait DynSession {
    fn maptype(&self) -> &'static str;
    #[allow(dead_code)]
    fn has_op(&self, op: &str) -> bool;
    /// Applies one action; for "stabilise" returns the rounds of all operators of the session.
    /// Err = panic message.
    fn apply(&mut self, a: &J) -> Result<Option<BTreeMap<String, Round>>, String>;
}

fn panic_msg(e: Box<dyn std::any::Any + Send>) -> String {
    if let Some(s) = e.downcast_ref::<&str>() {
        s.to_string()
    } else if let Some(s) = e.downcast_ref::<String>() {
        s.clone()
    } else {
        "panic".to_string()
    }
}

fn pairs_from_json(j: &J) -> Vec<(i64, i64)> {
    j.as_array()
        .map(|a| a.iter().map(|p| (p[0].as_i64().unwrap(), p[1].as_i64().unwrap())).collect())
        .unwrap_or_default()
}

impl<M: MapKind> Session<M> {
    fn new(op_names: &[String]) -> Result<Self, String> {
        catch_unwind(AssertUnwindSafe(|| {
            let state = IncrState::new();
            let mut vars = BTreeMap::new();
            for w in ["in", "left", "right"] {
                vars.insert(w, state.var(M::from_pairs(&[])));
            }
            let mut ops = BTreeMap::new();
            for name in op_names {
                let calls: Calls = Rc::new(RefCell::new(vec![]));
                let vin: Incr<M> = vars["in"].watch();
                let l: Incr<M> = vars["left"].watch();
                let r: Incr<M> = vars["right"].watch();
                let op = M::generic(name, &vin, calls.clone()).or_else(|| M::special(name, &vin, &l, &r, calls));
                if let Some(op) = op {
                    ops.insert(name.clone(), op);
                }
            }
            Session { ops, vars, state }
        }))
        .map_err(panic_msg)
    }
    fn apply_inner(&mut self, a: &J) -> Option<BTreeMap<String, Round>> {
        match a["a"].as_str().unwrap_or("") {
            "set" => {
                let which = a["which"].as_str().unwrap_or("in");
                if let Some(v) = self.vars.get(which) {
                    v.set(M::from_pairs(&pairs_from_json(&a["m"])));
                }
                None
            }
            "observe" => {
                if let Some(op) = self.ops.get_mut(a["op"].as_str().unwrap_or("")) {
                    op.observe();
                }
                None
            }
            "unobserve" => {
                if let Some(op) = self.ops.get_mut(a["op"].as_str().unwrap_or("")) {
                    op.unobserve();
                }
                None
            }
            "stabilise" => {
                self.state.stabilise();
                let mut out = BTreeMap::new();
                for (name, op) in self.ops.iter() {
                    let observed = op.observed();
                    let read = if observed { op.read() } else { Err("unobserved".into()) };
                    out.insert(name.clone(), Round { observed, read, calls: op.take_calls() });
                }
                Some(out)
            }
            _ => None,
        }
    }
}
impl<M: MapKind> DynSession for Session<M> {
    fn maptype(&self) -> &'static str {
        M::NAME
    }
    fn has_op(&self, op: &str) -> bool {
        self.ops.contains_key(op)
    }
    fn apply(&mut self, a: &J) -> Result<Option<BTreeMap<String, Round>>, String> {
        catch_unwind(AssertUnwindSafe(|| self.apply_inner(a))).map_err(panic_msg)
    }
}

fn new_session(mt: &str, ops: &[String]) -> Result<Box<dyn DynSession>, String> {
    Ok(match mt {
        "btree" => Box::new(Session::<BTreeMap<i64, i64>>::new(ops)?),
        "rc" => Box::new(Session::<Rc<BTreeMap<i64, i64>>>::new(ops)?),
        "ord" => Box::new(Session::<OrdMap<i64, i64>>::new(ops)?),
        _ => return Err(format!("unknown map type {mt}")),
    })
}
fn drop_session(s: Box<dyn DynSession>) -> Result<(), String> {
    catch_unwind(AssertUnwindSafe(move || drop(s))).map_err(panic_msg)
}

// ---------------------------------------------------------------------------------------------
// replay of exported behaviours

#[derive(Clone)]
struct Mismatch {
    prop: &'static str,
    step: usize,
    what: String,
}

fn sorted_calls(mut v: Vec<Call>) -> Vec<Call> {
    v.sort();
    v
}

fn ops_of_hist(hist: &[J]) -> Vec<String> {
    let mut s = BTreeSet::new();
    for a in hist {
        if let Some(op) = a.get("op").and_then(|o| o.as_str()) {
            s.insert(op.to_string());
        }
    }
    s.into_iter().collect()
}

fn replay_on(hist: &[J], mt: &str) -> Vec<Mismatch> {
    let mut ms = vec![];
    let mut sess = match new_session(mt, &ops_of_hist(hist)) {
        Ok(s) => s,
        Err(p) => return vec![Mismatch { prop: "C04", step: 0, what: format!("[{mt}] panic creating operators: {p}") }],
    };
    for (i, a) in hist.iter().enumerate() {
        let r = match sess.apply(a) {
            Ok(r) => r,
            Err(p) => {
                ms.push(Mismatch { prop: "C04", step: i, what: format!("[{mt}] panic in {}: {p}", a["a"]) });
                std::mem::forget(sess); // the engine state may be inconsistent after a panic
                return ms;
            }
        };
        let Some(rounds) = r else { continue };
        let expect = &a["expect"];
        for (op, rd) in rounds.iter() {
            let exp = expect.get(op.as_str());
            match (rd.observed, exp) {
                (true, Some(e)) => {
                    match &rd.read {
                        Ok((direct, down)) => {
                            if direct != &e["out"] {
                                ms.push(Mismatch { prop: "C15", step: i, what: format!("[{mt}] {op}: observed {direct} expected {}", e["out"]) });
                            } else if down != &e["out"] {
                                ms.push(Mismatch { prop: "C15", step: i, what: format!("[{mt}] {op}: dependant of the operator shows {down}, operator shows {direct} (did_change not reported)") });
                            }
                        }
                        Err(err) => ms.push(Mismatch { prop: "C15", step: i, what: format!("[{mt}] {op}: observer error {err}, expected {}", e["out"]) }),
                    }
                    let exp_calls = sorted_calls(e["calls"].as_array().map_or(vec![], |v| v.iter().map(call_from_json).collect()));
                    let got = sorted_calls(rd.calls.clone());
                    if got != exp_calls {
                        ms.push(Mismatch {
                            prop: "C17",
                            step: i,
                            what: format!(
                                "[{mt}] {op}: user function calls {} expected {}",
                                J::Array(got.iter().map(call_json).collect()),
                                J::Array(exp_calls.iter().map(call_json).collect())
                            ),
                        });
                    }
                }
                (true, None) => ms.push(Mismatch { prop: "C15", step: i, what: format!("[{mt}] {op}: observed in the harness but no expectation exported") }),
                (false, _) => {
                    if !rd.calls.is_empty() {
                        ms.push(Mismatch {
                            prop: "C17",
                            step: i,
                            what: format!("[{mt}] {op}: user functions called while unobserved: {}", J::Array(rd.calls.iter().map(call_json).collect())),
                        });
                    }
                }
            }
        }
    }
    if let Err(p) = drop_session(sess) {
        ms.push(Mismatch { prop: "C04", step: hist.len(), what: format!("[{mt}] panic on drop: {p}") });
    }
    ms
}

/// Parse a TLC `<<"REPLAY", "<json>">>` line (or a bare JSON array).
fn parse_line(line: &str) -> Option<Vec<J>> {
    let line = line.trim();
    if line.starts_with('[') {
        return serde_json::from_str::<J>(line).ok()?.as_array().cloned();
    }
    let rest = line.strip_prefix("<<\"REPLAY\", ")?.strip_suffix(">>")?;
    let inner: String = serde_json::from_str(rest).ok()?;
    serde_json::from_str::<J>(&inner).ok()?.as_array().cloned()
}

fn expects_calls(hist: &[J]) -> bool {
    hist.iter().any(|a| {
        a["a"] == "stabilise"
            && a["expect"].as_object().map_or(false, |o| o.values().any(|e| e["calls"].as_array().map_or(false, |c| !c.is_empty())))
    })
}

fn main_replay(file: &str, out_dir: Option<String>) {
    let rd = std::io::BufReader::new(std::fs::File::open(file).expect("open replay file"));
    let (mut n, mut bad, mut nontrivial) = (0usize, 0usize, 0usize);
    let mut by_prop: BTreeMap<String, usize> = BTreeMap::new();
    let mut failures: Vec<J> = vec![];
    let mut samples: Vec<J> = vec![];
    let mut per_mt: BTreeMap<&str, usize> = BTreeMap::new();
    for line in rd.lines() {
        let line = line.unwrap();
        let Some(hist) = parse_line(&line) else { continue };
        n += 1;
        let nt = expects_calls(&hist);
        if nt {
            nontrivial += 1;
            // samples: two behaviours that exercise something
            if samples.len() < 2 && n % 997 == 1 {
                samples.push(J::Array(hist.clone()));
            }
        }
        let mut failed = false;
        for mt in MAP_TYPES {
            *per_mt.entry(mt).or_default() += 1;
            let ms = replay_on(&hist, mt);
            if ms.is_empty() {
                continue;
            }
            failed = true;
            let mut props: Vec<&str> = vec![];
            for m in &ms {
                *by_prop.entry(m.prop.to_string()).or_default() += 1;
                if !props.contains(&m.prop) {
                    props.push(m.prop);
                }
            }
            for p in props {
                let cnt = failures.iter().filter(|f| f["prop"] == p).count();
                if cnt >= 5 {
                    continue;
                }
                let first = ms.iter().find(|m| m.prop == p).unwrap();
                let mut path = String::new();
                if let Some(dir) = &out_dir {
                    std::fs::create_dir_all(format!("{dir}/{p}")).ok();
                    path = format!("{dir}/{p}/mapops-{cnt}.json");
                    let rec = json!({"kind": "mapops", "hist": hist, "maptype": mt,
                        "mismatch": format!("step {}: {}", first.step, first.what),
                        "mismatches": ms.iter().map(|m| json!({"prop": m.prop, "step": m.step, "what": m.what})).collect::<Vec<_>>()});
                    let mut f = std::fs::File::create(&path).unwrap();
                    writeln!(f, "{rec}").unwrap();
                }
                failures.push(json!({"prop": p, "path": path, "first": format!("step {}: {}", first.step, first.what)}));
            }
        }
        if failed {
            bad += 1;
        }
    }
    if samples.len() < 2 {
        // fall back to the first behaviours of the file
        if let Ok(f) = std::fs::File::open(file) {
            for line in std::io::BufReader::new(f).lines().map_while(Result::ok) {
                if samples.len() >= 2 {
                    break;
                }
                if let Some(h) = parse_line(&line) {
                    if expects_calls(&h) {
                        samples.push(J::Array(h));
                    }
                }
            }
        }
    }
    println!(
        "{}",
        json!({"behaviours": n, "nontrivial": nontrivial, "failed": bad, "by_prop": by_prop,
               "sessions": per_mt, "failures": failures, "samples": samples})
    );
}

// ---------------------------------------------------------------------------------------------
// trace recording (random runs, and re-execution of a recorded run)

/// Runs the actions in lock-step on all three map types and returns the trace lines.
fn record_run(run: usize, actions: &[J]) -> Vec<J> {
    let ops: Vec<String> = ALL_OPS.iter().map(|s| s.to_string()).collect();
    let mut lines = vec![json!({"a": "reset", "run": run})];
    let mut sessions: Vec<Box<dyn DynSession>> = vec![];
    for mt in MAP_TYPES {
        match new_session(mt, &ops) {
            Ok(s) => sessions.push(s),
            Err(p) => {
                lines.push(json!({"a": "panic", "run": run, "mt": mt, "msg": p, "during": "create"}));
                return lines;
            }
        }
    }
    for a in actions {
        let mut line = a.clone();
        line["run"] = json!(run);
        let mut obs: Vec<J> = vec![];
        let mut panicked: Option<(String, String)> = None;
        for s in sessions.iter_mut() {
            match s.apply(a) {
                Ok(None) => {}
                Ok(Some(rounds)) => {
                    for (op, rd) in rounds {
                        if !rd.observed && rd.calls.is_empty() {
                            continue;
                        }
                        let (out, down, err) = match rd.read {
                            Ok((o, d)) => (o, d, String::new()),
                            Err(e) => (json!([]), json!([]), if rd.observed { e } else { String::new() }),
                        };
                        obs.push(json!({"op": op, "mt": s.maptype(), "observed": rd.observed, "err": err,
                            "out": out, "down": down,
                            "calls": rd.calls.iter().map(call_json).collect::<Vec<_>>()}));
                    }
                }
                Err(p) => {
                    panicked = Some((s.maptype().to_string(), p));
                    break;
                }
            }
        }
        if let Some((mt, p)) = panicked {
            lines.push(json!({"a": "panic", "run": run, "mt": mt, "msg": p, "during": a["a"]}));
            for s in sessions {
                std::mem::forget(s);
            }
            return lines;
        }
        if a["a"] == "stabilise" {
            line["obs"] = J::Array(obs);
        }
        lines.push(line);
    }
    for s in sessions {
        let mt = s.maptype();
        if let Err(p) = drop_session(s) {
            lines.push(json!({"a": "panic", "run": run, "mt": mt, "msg": p, "during": "drop"}));
        }
    }
    lines
}

fn random_actions(rng: &mut StdRng) -> Vec<J> {
    let nk: i64 = rng.gen_range(4..=6);
    let n_actions = rng.gen_range(10..=30);
    let mut cur: BTreeMap<&str, BTreeMap<i64, i64>> = BTreeMap::new();
    for w in ["in", "left", "right"] {
        cur.insert(w, BTreeMap::new());
    }
    let mut observed: BTreeSet<&str> = BTreeSet::new();
    let mut acts: Vec<J> = vec![];
    let m_json = |m: &BTreeMap<i64, i64>| J::Array(m.iter().map(|(k, v)| json!([k, v])).collect());
    // start: observe a random subset, fill the inputs
    for op in ALL_OPS {
        if rng.gen_bool(0.6) {
            observed.insert(op);
            acts.push(json!({"a": "observe", "op": op}));
        }
    }
    for w in ["in", "left", "right"] {
        if rng.gen_bool(0.8) {
            let m: BTreeMap<i64, i64> = (1..=nk).filter_map(|k| if rng.gen_bool(0.6) { Some((k, rng.gen_range(0..4))) } else { None }).collect();
            acts.push(json!({"a": "set", "which": w, "m": m_json(&m)}));
            cur.insert(w, m);
        }
    }
    acts.push(json!({"a": "stabilise"}));
    while acts.len() < n_actions {
        let x: f64 = rng.gen();
        if x < 0.45 {
            let w = match rng.gen_range(0..4) {
                0 | 1 => "in",
                2 => "left",
                _ => "right",
            };
            let mut m = cur[w].clone();
            let y: f64 = rng.gen();
            if y < 0.12 {
                m.clear(); // emptying
            } else if y < 0.24 {
                m = (1..=nk).filter_map(|k| if rng.gen_bool(0.7) { Some((k, rng.gen_range(0..4))) } else { None }).collect(); // refill
            } else if y < 0.30 {
                // set to the same map
            } else if y < 0.38 {
                // all values 0: the plain sums fold a non-empty map to their init
                for v in m.values_mut() {
                    *v = 0;
                }
            } else if y < 0.50 {
                // an edit that the first stage of the chains announces (non-empty diff) although its
                // output stays equal: only keys that chain_f filters out before and after (even
                // values) are inserted, changed or removed; the second stage runs on an empty diff
                for _ in 0..rng.gen_range(1..=2) {
                    let k = rng.gen_range(1..=nk);
                    match m.get(&k).copied() {
                        None => {
                            m.insert(k, 2 * rng.gen_range(0..2));
                        }
                        Some(v) if v % 2 == 0 => {
                            if rng.gen_bool(0.3) {
                                m.remove(&k);
                            } else {
                                m.insert(k, 2 - v);
                            }
                        }
                        Some(_) => {}
                    }
                }
            } else {
                for _ in 0..rng.gen_range(1..=3) {
                    let k = rng.gen_range(1..=nk);
                    if m.contains_key(&k) {
                        if rng.gen_bool(0.5) {
                            m.remove(&k);
                        } else {
                            m.insert(k, rng.gen_range(0..4));
                        }
                    } else {
                        m.insert(k, rng.gen_range(0..4));
                    }
                }
            }
            acts.push(json!({"a": "set", "which": w, "m": m_json(&m)}));
            cur.insert(w, m);
        } else if x < 0.75 {
            acts.push(json!({"a": "stabilise"}));
        } else if x < 0.87 {
            let cand: Vec<&str> = ALL_OPS.iter().cloned().filter(|o| !observed.contains(o)).collect();
            if !cand.is_empty() {
                let op = cand[rng.gen_range(0..cand.len())];
                observed.insert(op);
                acts.push(json!({"a": "observe", "op": op}));
            }
        } else {
            let cand: Vec<&str> = observed.iter().cloned().collect();
            if !cand.is_empty() {
                // sometimes unobserve several at once (long unobserved periods)
                let n = if rng.gen_bool(0.3) { cand.len().min(4) } else { 1 };
                for _ in 0..n {
                    let cand: Vec<&str> = observed.iter().cloned().collect();
                    let op = cand[rng.gen_range(0..cand.len())];
                    observed.remove(op);
                    acts.push(json!({"a": "unobserve", "op": op}));
                }
            }
        }
    }
    acts.push(json!({"a": "stabilise"}));
    acts
}

fn write_lines(path: &str, lines: &[J]) {
    let mut f = std::io::BufWriter::new(std::fs::File::create(path).expect("create trace"));
    for l in lines {
        writeln!(f, "{l}").unwrap();
    }
}

fn main_random(n: usize, seed: u64, out_trace: &str) {
    let mut rng = StdRng::seed_from_u64(seed);
    let mut all = vec![];
    let mut panics = 0usize;
    for run in 0..n {
        let acts = random_actions(&mut rng);
        let lines = record_run(run, &acts);
        panics += lines.iter().filter(|l| l["a"] == "panic").count();
        all.extend(lines);
    }
    write_lines(out_trace, &all);
    println!("{}", json!({"random_runs": n, "seed": seed, "lines": all.len(), "panics": panics, "trace": out_trace}));
}

fn main_one(path: &str, out_trace: Option<String>) {
    let txt = std::fs::read_to_string(path).expect("read failure file");
    let rec: J = serde_json::from_str(txt.trim()).expect("failure file is JSON");
    match rec["kind"].as_str().unwrap_or("") {
        "mapops" => {
            let hist = rec["hist"].as_array().cloned().unwrap_or_default();
            let mts: Vec<String> = match rec["maptype"].as_str() {
                Some(m) => vec![m.to_string()],
                None => MAP_TYPES.iter().map(|s| s.to_string()).collect(),
            };
            let mut ms = vec![];
            for mt in &mts {
                ms.extend(replay_on(&hist, mt));
            }
            println!(
                "{}",
                json!({"kind": "mapops", "reproduced": !ms.is_empty(),
                       "mismatches": ms.iter().map(|m| json!({"prop": m.prop, "step": m.step, "what": m.what})).collect::<Vec<_>>()})
            );
        }
        "mapops-random" => {
            let acts: Vec<J> = rec["lines"]
                .as_array()
                .cloned()
                .unwrap_or_default()
                .into_iter()
                .filter(|l| matches!(l["a"].as_str(), Some("set") | Some("observe") | Some("unobserve") | Some("stabilise")))
                .map(|mut l| {
                    if let Some(o) = l.as_object_mut() {
                        o.remove("obs");
                        o.remove("run");
                    }
                    l
                })
                .collect();
            let lines = record_run(0, &acts);
            let out = out_trace.expect("--out-trace <file> required for kind mapops-random");
            write_lines(&out, &lines);
            println!("{}", json!({"kind": "mapops-random", "lines": lines.len(), "trace": out,
                                  "panics": lines.iter().filter(|l| l["a"] == "panic").count()}));
        }
        k => {
            eprintln!("unknown kind {k:?}");
            std::process::exit(2);
        }
    }
}

fn main() {
    let args: Vec<String> = std::env::args().collect();
    let (mut file, mut out_dir, mut one, mut random, mut seed, mut out_trace) = (None, None, None, None, 1u64, None);
    let mut i = 1;
    while i < args.len() {
        match args[i].as_str() {
            "--out" => { out_dir = Some(args[i + 1].clone()); i += 1; }
            "--one" => { one = Some(args[i + 1].clone()); i += 1; }
            "--random" => { random = Some(args[i + 1].parse::<usize>().expect("--random N")); i += 1; }
            "--seed" => { seed = args[i + 1].parse::<u64>().expect("--seed S"); i += 1; }
            "--out-trace" => { out_trace = Some(args[i + 1].clone()); i += 1; }
            f => file = Some(f.to_string()),
        }
        i += 1;
    }
    std::panic::set_hook(Box::new(|_| {}));
    if let Some(p) = one {
        main_one(&p, out_trace);
    } else if let Some(n) = random {
        main_random(n, seed, &out_trace.expect("--out-trace <file> required with --random"));
    } else {
        main_replay(&file.expect("usage: mapops <replay-file> [--out <dir>] | --one <path> | --random N --seed S --out-trace <file>"), out_dir);
    }
}
