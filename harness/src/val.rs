//! Value universe and function families shared with the TLA+ spec (Incr.tla: F1, F2, cutoffs).
//! A value is rendered as the spec's triple `[tag, a, b]`.

use serde_json::{json, Value as J};
use std::fmt;

pub const K_DEFAULT: i64 = 2;

thread_local! {
    pub static K: std::cell::Cell<i64> = std::cell::Cell::new(K_DEFAULT);
}
pub fn k() -> i64 {
    K.with(|k| k.get())
}

#[derive(Clone, PartialEq)]
pub enum Val {
    I(i64),
    P(Box<Val>, Box<Val>),
    U,
    /// a node handle as a value (Var<Incr<T>>, join)
    N(incremental::Incr<Val>),
}

impl Default for Val {
    fn default() -> Self {
        Val::I(0)
    }
}

impl fmt::Debug for Val {
    fn fmt(&self, f: &mut fmt::Formatter<'_>) -> fmt::Result {
        write!(f, "{}", self.to_json())
    }
}

impl Val {
    pub fn int(&self) -> i64 {
        match self {
            Val::I(x) => *x,
            Val::P(a, _) => a.int(),
            Val::U => 0,
            Val::N(n) => n.verif_index() as i64,
        }
    }
    pub fn snd_int(&self) -> i64 {
        match self {
            Val::P(_, b) => b.int(),
            _ => 0,
        }
    }
    pub fn pair(a: i64, b: i64) -> Val {
        Val::P(Box::new(Val::I(a)), Box::new(Val::I(b)))
    }
    pub fn to_json(&self) -> J {
        match self {
            Val::I(x) => json!(["i", x, 0]),
            Val::P(a, b) => json!(["p", a.int(), b.int()]),
            Val::U => json!(["u", 0, 0]),
            Val::N(n) => json!(["n", n.verif_index(), 0]),
        }
    }
    pub fn from_json(j: &J) -> Option<Val> {
        let a = j.as_array()?;
        let tag = a.first()?.as_str()?;
        let x = a.get(1)?.as_i64()?;
        let y = a.get(2)?.as_i64()?;
        match tag {
            "i" => Some(Val::I(x)),
            "p" => Some(Val::pair(x, y)),
            "u" => Some(Val::U),
            "none" => None,
            _ => None,
        }
    }
}

pub fn f1(f: &str, x: &Val) -> Val {
    let k = k();
    match f {
        "id" => x.clone(),
        "inc" => match x {
            Val::P(a, b) => Val::pair((a.int() + 1) % k, b.int()),
            _ => Val::I((x.int() + 1) % k),
        },
        "const0" => Val::I(0),
        "min1" => Val::I(if x.int() > 0 { 1 } else { 0 }),
        "fst" => Val::I(x.int()),
        "snd" => Val::I(x.snd_int()),
        "swap" => Val::pair(x.snd_int(), x.int()),
        "dup" => Val::pair(x.int(), x.int()),
        "pair0" => Val::pair(x.int(), 0),
        "halfp" => Val::pair(if x.int() > 0 { 1 } else { 0 }, 0),
        _ => panic!("harness: unknown unary function {f}"),
    }
}

pub fn f2(f: &str, x: &Val, y: &Val) -> Val {
    let k = k();
    match f {
        "add" => Val::I((x.int() + y.int()) % k),
        "fst" => x.clone(),
        "snd" => y.clone(),
        "max" => Val::I(std::cmp::max(x.int(), y.int())),
        "pair" => Val::pair(x.int(), y.int()),
        _ => panic!("harness: unknown binary function {f}"),
    }
}

/// Projection for map_ref: a genuine reference into the input.
pub fn proj<'a>(f: &str, x: &'a Val) -> &'a Val {
    match (f, x) {
        ("id", _) => x,
        ("fst", Val::P(a, _)) => a,
        ("snd", Val::P(_, b)) => b,
        _ => panic!("harness: bad projection {f} on {x:?}"),
    }
}

pub fn should_cutoff(c: &str, old: &Val, new: &Val) -> bool {
    match c {
        "min1" => f1("min1", old) == f1("min1", new),
        "le" => new.int() <= old.int(),
        "beq" => old == new,
        _ => panic!("harness: unknown fn cutoff {c}"),
    }
}
