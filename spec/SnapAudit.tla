------------------------------ MODULE SnapAudit ------------------------------
(***************************************************************************)
(* C11 on the repository's OWN test suite.  With the verif hook and        *)
(* INCR_VERIF_TRACE_DIR set, the engine appends a snapshot of its complete *)
(* state at the end of every stabilise of every existing test.  Each       *)
(* snapshot (reshaped by bin/stage_owntests.py) is loaded into a record of *)
(* the engine spec's vocabulary and the Audit predicates of IncrRef - the  *)
(* same ones that are TLC invariants of the engine spec - are evaluated.   *)
(* The closures of those tests are arbitrary Rust, so only structure is    *)
(* checked here (value-agnostic): edges and both index arrays, heights,    *)
(* heap membership, counters, and that every needed valid node has a value.*)
(***************************************************************************)
EXTENDS IncrRef, Json, IOUtils, TLCExt

Rec == ndJsonDeserialize(IOEnv.TRACE)
VARIABLE l

S(e) ==
  [n |-> e.n, def |-> e.def, valid |-> e.valid, val |-> e.val,
   recAt |-> e.recat, chgAt |-> e.chgat, setAt |-> e.setat,
   height |-> e.h, hHeap |-> e.hrch, hAhh |-> e.hahh,
   par |-> e.par, cip |-> e.cip, pic |-> e.pic, scope |-> e.scope,
   force |-> e.force, numH |-> e.numh, nsubs |-> [i \in 1..e.n |-> <<>>],
   nobs |-> [i \in 1..e.n |-> SeqSet(e.nobs[i])],
   rhs |-> e.rhs, edges |-> e.edges, fstale |-> e.fstale,
   rel |-> SeqSet(e.rel),
   rch |-> [h \in {e.rch[i][1] : i \in 1..Len(e.rch)} |->
              e.rch[CHOOSE i \in 1..Len(e.rch) : e.rch[i][1] = h][2]],
   rchLen |-> e.rchlen, rchLower |-> e.rchlower, rchMax |-> e.rchmax,
   ahhLen |-> e.ahhlen, ahhMax |-> e.ahhmax, ahhSeen |-> e.ahhseen, ahhQ |-> QEmpty,
   pinv |-> e.pinv,
   no |-> Len(e.ostate), ostate |-> e.ostate, onode |-> e.onode,
   osubs |-> [o \in 1..Len(e.ohandlers) |-> [j \in 1..e.ohandlers[o] |-> 0]],
   stats |-> [becameNec |-> e.becamenec, becameUnnec |-> e.becameunnec],
   status |-> e.status, num |-> e.num, panic |-> ""]

Init == l = 1
Step ==
  /\ l <= Len(Rec)
  /\ LET e == Rec[l]
         bad == IF e.status = "idle" THEN AuditParts(S(e)) ELSE {}
     IN bad # {} => PrintT(<<"JUDGE", l, e.test, ToJson(bad)>>)
  /\ l' = l + 1
Spec == Init /\ [][Step]_l
Accepted ==
  LET d == TLCGet("stats").diameter IN
  IF d - 1 = Len(Rec) THEN PrintT(<<"TRACE-DONE", Len(Rec)>>)
  ELSE PrintT(<<"TRACE-STUCK", d, Len(Rec)>>) /\ FALSE
=============================================================================
