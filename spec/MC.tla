--------------------------------- MODULE MC ---------------------------------
(***************************************************************************)
(* Model-checking harness for the engine spec: enumerates PROGRAMS (node   *)
(* creation actions) and HISTORIES (writes, observers, subscriptions,      *)
(* stabilise split at every user-function boundary), checks the property   *)
(* predicates of IncrRef in every state and exports behaviours with the    *)
(* reference predictions for replay against the Rust code (binding A).     *)
(* Families are cfg files choosing the constants below.                    *)
(***************************************************************************)
EXTENDS IncrRef, Json

CONSTANTS Ctors,      \* subset of node constructors to enumerate
          Fs1, Fs2,   \* unary / binary function names
          Cutoffs,    \* cutoff names for the "cutoff" action
          RecipeKinds,\* bind recipe shapes
          Ops,        \* var write operations
          Effs,       \* side effects of user functions / handlers to enumerate
          MaxSubs,    \* subscriptions per behaviour
          MaxVars, MaxNodes, MaxObs, MaxActs, MaxRounds, MaxH,
          Late,       \* BOOLEAN: allow node creation after the first observer
          Prog,       \* a scripted program (sequence of creation actions) executed first; <<>> = none
          Export,     \* BOOLEAN: print REPLAY lines
          ExportMod   \* export about one behaviour in ExportMod (seeded sampling)

VARIABLES st, hist, coneB, acts,
          noops   \* the API action (at most one per behaviour) that left the engine state unchanged (see Do)

vars == <<st, hist, coneB, acts, noops>>
Vals == {I(x) : x \in 0..(K - 1)}
PVals == {P(a, b) : a \in 0..(K - 1), b \in 0..1}
NVals == {NR(n) : n \in {m \in 1..st.n : st.def[m].k \in {"var", "const", "map", "map2"} /\ st.scope[m] = 0
                                          /\ ~(st.def[m].k = "var" /\ Tag(st.def[m].init) # "i")
                                          /\ ~(st.def[m].k = "map" /\ ("ctl" \in DOMAIN st.def[m] \/ st.def[m].f \in {"dup", "pair0", "halfp", "swap"}))}}
Nodes == 1..st.n
Quiet == Ok(st) /\ st.status = "idle"
\* user-visible nodes (not lhs_change, not created inside binds)
Visible == {n \in Nodes : st.def[n].k # "lhs" /\ st.scope[n] = 0 /\ n \in st.handles}
\* does node n carry integers (as opposed to pairs / node handles / unit)?
RECURSIVE IsInt(_)
IsInt(n) ==
  LET d == st.def[n] IN
  CASE d.k = "var" -> Tag(d.init) = "i"
    [] d.k = "const" -> Tag(d.init) = "i"
    [] d.k = "map" -> ~("ctl" \in DOMAIN d) /\ d.f \notin {"dup", "pair0", "halfp", "swap"}
                      /\ (d.f \in {"id", "inc"} => IsInt(d.ins[1]))
    [] d.k = "map2" -> d.f # "pair"
    [] d.k = "mwo" -> d.f \notin {"dup", "pair0", "halfp", "swap"} /\ (d.f \in {"id", "inc"} => IsInt(d.ins[1]))
    [] d.k = "mapref" -> d.f \in {"fst", "snd"} \/ IsInt(d.ins[1])
    [] d.k \in {"fold", "main", "expert"} -> TRUE
    [] OTHER -> FALSE
IntNodes == {n \in Visible : IsInt(n)}
PairNodes == {n \in Visible \ IntNodes : st.def[n].k \in {"var", "map", "map2", "mapref", "mwo"}
                                          /\ ~(st.def[n].k = "var" /\ Tag(st.def[n].init) # "p")
                                          /\ ~(st.def[n].k = "map" /\ "ctl" \in DOMAIN st.def[n])}
NumVars == Cardinality({n \in Nodes : st.def[n].k = "var"})
Scripting == acts < Len(Prog)
Creating == ~Scripting /\ st.n < MaxNodes /\ (Late \/ st.no = 0)

\* every API action is followed by the reads the reference predicts at that point (C07, C10)
ReadsOf(s) == [a |-> "expect",
               reads |-> [o \in 1..s.no |-> IF s.ostate[o] = "inuse" /\ ~ExactCone(s, s.onode[o])
                                             THEN <<"skip", "">> ELSE RefReadS(s, o)],
               rtags |-> [o \in 1..s.no |-> ValueTag(s, o)],
               rets |-> s.retLog]
\* (s is the result of the action applied to st; only what the action itself returned is kept)
OnlyNewRets(s) == IF Ok(s) THEN [s EXCEPT !.retLog = SubSeq(@, Len(st.retLog) + 1, Len(@))] ELSE s
\* Behaviours are exported once per distinct state (VIEW), so a history containing an action that the
\* spec treats as a no-op (a second unsubscribe of the same token, a write of ... ) would never be
\* exported: the shorter history reaches the same state first.  Code that mishandles exactly such
\* calls would escape.  One no-op per behaviour is therefore made part of the state.
\* The no-op action itself (not just a count) is kept, so that different kinds of no-ops do not
\* shadow one another.
NoNoop == [a |-> "none"]
Do(a, s) == LET r == Settle(HoldFor(a, OnlyNewRets(s)))
                same == Ok(r) /\ [r EXCEPT !.retLog = st.retLog] = st
            IN /\ st' = r
               /\ (same => noops = NoNoop)
               /\ noops' = IF same THEN a ELSE noops
               /\ hist' = IF Ok(s) /\ a.a \in {"write", "observe", "observe_leaked", "obs_drop", "obs_clone", "disallow",
                                              "subscribe", "unsubscribe", "state_unsubscribe", "drop", "drop_var"}
                          THEN Append(Append(hist, a), ReadsOf(r))
                          ELSE Append(hist, a)
               /\ acts' = acts + 1
               /\ UNCHANGED coneB

---------------------------------------------------------------------------
(* Program construction                                                     *)
IntF1 == Fs1 \cap {"id", "inc", "const0", "min1"}
\* side effects attached to a map function (DESIGN 3.2)
EffChoices ==
  {<<>>}
  \cup (IF "panic" \in Effs THEN {<<[e |-> "panic", at |-> k]>> : k \in 1..2} ELSE {})
  \cup (IF "set" \in Effs
        THEN {<<[e |-> "set", v |-> v, op |-> op, x |-> x]>> :
                v \in {n \in Nodes : st.def[n].k = "var" /\ Tag(st.def[n].init) = "i"},
                op \in Ops \cap {"set", "update", "replace"}, x \in {I(1)}}
        ELSE {})
  \cup (IF "set_drop" \in Effs
        THEN {<<[e |-> "set", v |-> v, op |-> "set", x |-> I(1)], [e |-> "drop_var", v |-> v]>> :
                v \in {n \in Nodes : st.def[n].k = "var" /\ Tag(st.def[n].init) = "i"}}
        ELSE {})
  \cup (IF "read" \in Effs THEN {<<[e |-> "read", o |-> 1]>>} ELSE {})
  \cup (IF "stabilise" \in Effs THEN {<<[e |-> "stabilise"]>>} ELSE {})
Create ==
  /\ Quiet /\ Creating
  /\ \/ /\ "var" \in Ctors /\ NumVars < MaxVars
        /\ \E v \in Vals : Do([a |-> "var", v |-> v], ApiVar(st, v))
     \/ /\ "pvar" \in Ctors /\ NumVars < MaxVars
        /\ \E v \in PVals : Do([a |-> "var", v |-> v], ApiVar(st, v))
     \/ /\ "nvar" \in Ctors /\ NumVars < MaxVars
        /\ \E v \in NVals : Do([a |-> "var", v |-> v], ApiVar(st, v))
     \/ /\ "xjoin" \in Ctors /\ st.n + 2 <= MaxNodes
        /\ \E n \in {m \in Nodes : st.def[m].k = "var" /\ Tag(st.def[m].init) = "n"} :
             Do([a |-> "xjoin", in |-> n], ApiXJoin(st, n))
     \/ /\ "xsum" \in Ctors /\ st.n + 2 <= MaxNodes
        /\ \E sel \in {m \in IntNodes : st.def[m].k = "var"}, x \in IntNodes, y \in IntNodes :
             sel # x /\ sel # y /\ K >= 3 /\
             Do([a |-> "xsum", sel |-> sel, ins |-> <<x, y>>], ApiXSum(st, sel, <<x, y>>))
     \/ /\ "memo" \in Ctors /\ Len(st.memos) < 1
        /\ \/ \E x \in IntNodes, f \in Fs2 \cap {"add", "max"} :
                Do([a |-> "memo_new", f |-> f, over |-> x], ApiMemoNew(st, f, x))
           \/ Do([a |-> "memo_new", f |-> "const", over |-> 0], ApiMemoNew(st, "const", 0))
     \/ /\ "const" \in Ctors
        /\ \E v \in Vals : Do([a |-> "const", v |-> v], ApiConst(st, v))
     \/ /\ "map" \in Ctors
        /\ \E f \in IntF1, n \in IntNodes, eff \in EffChoices :
             Do([a |-> "map", f |-> f, in |-> n, eff |-> eff], ApiMap(st, f, n, eff))
     \/ /\ "pmap" \in Ctors     \* maps producing / consuming pairs
        /\ \/ \E f \in Fs1 \cap {"dup", "pair0", "halfp"}, n \in IntNodes :
                Do([a |-> "map", f |-> f, in |-> n, eff |-> <<>>], ApiMap(st, f, n, <<>>))
           \/ \E f \in Fs1 \cap {"fst", "snd"}, n \in PairNodes :
                Do([a |-> "map", f |-> f, in |-> n, eff |-> <<>>], ApiMap(st, f, n, <<>>))
     \/ /\ "map2" \in Ctors
        /\ \E f \in Fs2 \ {"pair"}, x \in IntNodes, y \in IntNodes :
             Do([a |-> "map2", f |-> f, in |-> <<x, y>>], ApiMap2(st, f, x, y))
     \/ /\ "fold" \in Ctors /\ st.n + 1 < MaxNodes
        /\ \E x \in IntNodes, y \in IntNodes :
             Do([a |-> "fold", f |-> "add", ins |-> <<x, y>>, init |-> I(0)],
                ApiFold(st, "add", <<x, y>>, I(0)))
     \/ /\ "mapref" \in Ctors
        /\ \/ \E f \in {"fst", "snd"}, n \in PairNodes :
                Do([a |-> "mapref", f |-> f, in |-> n], ApiMapRef(st, f, n))
           \/ \E n \in IntNodes : Do([a |-> "mapref", f |-> "id", in |-> n], ApiMapRef(st, "id", n))
     \/ /\ "mwo" \in Ctors
        /\ \E f \in IntF1, m \in {"ne", "true"}, n \in IntNodes :
             Do([a |-> "mwo", f |-> f, mode |-> m, in |-> n], ApiMwo(st, f, m, n))
     \/ /\ "zip" \in Ctors
        /\ \E x \in IntNodes, y \in IntNodes :
             \* the harness converts the tuple with an extra `map` node (id + 1)
             st.n + 2 <= MaxNodes /\
             Do([a |-> "zip", in |-> <<x, y>>],
                LET s1 == ApiZip(st, x, y) IN ApiMap(s1, "id", s1.n, <<>>))
     \/ /\ "dependon" \in Ctors
        /\ \E x \in IntNodes, y \in IntNodes : x # y /\
             Do([a |-> "dependon", in |-> <<x, y>>], ApiDependOn(st, x, y))
     \/ /\ "bind" \in Ctors /\ st.n + 2 <= MaxNodes
        /\ \E l \in IntNodes :
             \/ /\ "pick" \in RecipeKinds
                /\ \E x \in IntNodes, y \in IntNodes : x # y /\ K = 2 /\
                     LET rc == [r |-> "pick", alts |-> <<x, y>>] IN
                     Do([a |-> "bind", in |-> l, recipe |-> rc], ApiBind(st, l, rc))
             \/ /\ "foreign" \in RecipeKinds
                /\ LET rc == [r |-> "foreign"] IN
                   Do([a |-> "bind", in |-> l, recipe |-> rc], ApiBind(st, l, rc))
             \/ /\ "memo" \in RecipeKinds /\ Len(st.memos) >= 1
                /\ LET rc == [r |-> "memo", m |-> 1] IN
                   Do([a |-> "bind", in |-> l, recipe |-> rc], ApiBind(st, l, rc))
             \/ /\ "boom" \in RecipeKinds     \* a bind closure that panics on BoomVal (C13 crash point)
                /\ \E x \in IntNodes :
                     \E rc \in {[r |-> "boom", then |-> [r |-> "const"]],
                                [r |-> "boom", then |-> [r |-> "map", f |-> "add", over |-> x]]} :
                     Do([a |-> "bind", in |-> l, recipe |-> rc], ApiBind(st, l, rc))
             \/ /\ "const" \in RecipeKinds
                /\ LET rc == [r |-> "const"] IN
                   Do([a |-> "bind", in |-> l, recipe |-> rc], ApiBind(st, l, rc))
             \/ /\ "map" \in RecipeKinds
                /\ \E x \in IntNodes, f \in Fs2 \cap {"add", "max", "fst"} :
                     LET rc == [r |-> "map", f |-> f, over |-> x] IN
                     Do([a |-> "bind", in |-> l, recipe |-> rc], ApiBind(st, l, rc))
             \/ /\ "leakmap" \in RecipeKinds
                /\ \E x \in IntNodes :
                     LET rc == [r |-> "leak", then |-> [r |-> "map", f |-> "add", over |-> x]] IN
                     Do([a |-> "bind", in |-> l, recipe |-> rc], ApiBind(st, l, rc))
             \/ /\ "nested" \in RecipeKinds
                /\ \E x \in IntNodes, y \in IntNodes :
                     LET rc == [r |-> "bind", over |-> x,
                                inner |-> [r |-> "map", f |-> "add", over |-> y]] IN
                     Do([a |-> "bind", in |-> l, recipe |-> rc], ApiBind(st, l, rc))
             \/ /\ "altmap" \in RecipeKinds
                /\ \E x \in IntNodes : K = 2 /\
                     LET rc == [r |-> "alt", alts |-> <<[r |-> "pick", alts |-> <<x, x>>],
                                                        [r |-> "map", f |-> "add", over |-> x]>>] IN
                     Do([a |-> "bind", in |-> l, recipe |-> rc], ApiBind(st, l, rc))
             \/ /\ "altchain" \in RecipeKinds
                /\ \E x \in IntNodes : K = 2 /\
                     LET rc == [r |-> "alt", alts |-> <<[r |-> "pick", alts |-> <<x, x>>],
                                                        [r |-> "chain", f |-> "add", over |-> x, len |-> 3]>>] IN
                     Do([a |-> "bind", in |-> l, recipe |-> rc], ApiBind(st, l, rc))
     \/ /\ "refbind" \in Ctors /\ st.n + 2 <= MaxNodes
        /\ \E l \in {m \in Nodes : st.def[m].k = "var" /\ Tag(st.def[m].init) = "n" /\ m \in st.handles} :
             LET rc == [r |-> "ref"] IN
             Do([a |-> "bind", in |-> l, recipe |-> rc], ApiBind(st, l, rc))
     \/ /\ "cutoff" \in Ctors
        /\ \E n \in IntNodes, c \in Cutoffs :
             st.cutoff[n].c = "eq" /\ st.recAt[n] = -1 /\
             Do([a |-> "cutoff", n |-> n, c |-> c], ApiSetCutoff(st, n, [c |-> c]))

---------------------------------------------------------------------------
(* Histories                                                                *)
Budget == acts < MaxActs /\ ~Scripting
Write ==
  /\ Quiet /\ Budget
  /\ \E v \in {n \in Nodes : st.def[n].k = "var" /\ n \in st.vhandles}, op \in Ops :
       IF op \in {"set", "replace"}
       THEN \E x \in (IF Tag(st.def[v].init) = "p" THEN PVals
                       ELSE IF Tag(st.def[v].init) = "n"
                            THEN {y \in NVals : y[2] < v \/ "cyclic" \in Ctors}
                                 \cup (IF "cyclic" \in Ctors THEN {NR(st.leaked[i]) : i \in 1..Len(st.leaked)} ELSE {})
                       ELSE Vals) :
              x # st.cell[v] /\
              Do([a |-> "write", n |-> v, op |-> op, x |-> x], VarWrite(st, v, op, x))
       ELSE Do([a |-> "write", n |-> v, op |-> op, x |-> NoVal], VarWrite(st, v, op, NoVal))
\* Incr::on_update: a node-level handler (at most one per node here)
OnUpdateA ==
  /\ Quiet /\ Budget /\ "onupdate" \in Effs
  /\ \E n \in Visible : Len(st.nsubs[n]) < 1 /\
       Do([a |-> "on_update", n |-> n], ApiOnUpdate(st, n))
\* arm the observability callback of an expert node (C13 crash point during observer linking)
XArm ==
  /\ Quiet /\ Budget /\ "xarm" \in Effs
  /\ \E e \in {n \in Nodes : st.def[n].k = "expert" /\ n \notin st.armed} :
       Do([a |-> "xarm", n |-> e], ApiXArm(st, e))
Observe ==
  /\ Quiet /\ Budget /\ st.no < MaxObs
  /\ \E n \in Visible : Do([a |-> "observe", n |-> n], ApiObserve(st, n))
ObserveLeaked ==
  /\ Quiet /\ Budget /\ st.no < MaxObs
  /\ \E i \in 1..Len(st.leaked) :
        \* well-formedness (DESIGN 3.2): a VALID bind-created node may only be made necessary while
        \* its defining bind is necessary; an invalidated one may be observed freely (ObservingInvalid)
        /\ (st.valid[st.leaked[i]] => ScopeNecessary(st, st.leaked[i]))
        /\ Do([a |-> "observe_leaked", i |-> i], ApiObserve(st, st.leaked[i]))
DropObs ==
  /\ Quiet /\ Budget
  /\ \E o \in 1..st.no : st.oclones[o] > 0 /\ Do([a |-> "obs_drop", o |-> o], ApiObsDrop(st, o))
CloneObs ==
  /\ Quiet /\ Budget /\ "clone" \in Ctors
  /\ \E o \in 1..st.no : st.oclones[o] = 1 /\ Do([a |-> "obs_clone", o |-> o], ApiObsClone(st, o))
Disallow ==
  /\ Quiet /\ Budget
  /\ \E o \in 1..st.no : st.oclones[o] > 0 /\ st.ostate[o] \in {"created", "inuse"} /\
       Do([a |-> "disallow", o |-> o], DisallowObs(st, o))

NumSubs == LET RECURSIVE Sum(_)
               Sum(o) == IF o = 0 THEN 0 ELSE (st.onext[o] - 1) + Sum(o - 1)
           IN Sum(st.no)
\* what a subscription handler does besides recording its update
HandlerEffs(o) ==
  {<<>>}
  \* the order in which the handlers of one observer run is unspecified (hash order): a handler that
  \* ends its own observer is only enumerated as that observer's sole subscription
  \cup (IF "h_drop" \in Effs /\ st.osubs[o] = <<>> /\ st.onext[o] = 1
        THEN {<<[e |-> "obs_drop", o |-> o]>>} ELSE {})
  \cup (IF "h_panic" \in Effs THEN {<<[e |-> "panic", at |-> 0]>>} ELSE {})
  \cup (IF "h_set" \in Effs
        THEN {<<[e |-> "set", v |-> v, op |-> "set", x |-> I(1)]>> :
                v \in {n \in Nodes : st.def[n].k = "var" /\ Tag(st.def[n].init) = "i"}}
        ELSE {})
  \* (observers of ONE node run in hash order: cross-observer effects only between different nodes)
  \cup (IF "h_sub" \in Effs
        THEN {<<[e |-> "sub", o |-> p]>> : p \in {q \in (1..st.no) \ {o} : st.onode[q] # st.onode[o]}} ELSE {})
SubscribeA ==
  /\ Quiet /\ Budget /\ NumSubs < MaxSubs
  /\ \E o \in 1..st.no : st.oclones[o] > 0 /\
       ~(\E i \in 1..Len(st.osubs[o]) : st.osubs[o][i].eff # <<>> /\ st.osubs[o][i].eff[1].e = "obs_drop") /\
       \E eff \in HandlerEffs(o) :
         Do([a |-> "subscribe", o |-> o, eff |-> eff], Subscribe(st, o, eff))
UnsubscribeA ==
  /\ Quiet /\ Budget /\ MaxSubs > 0
  /\ \E o \in 1..st.no, to \in 1..st.no : st.oclones[o] > 0 /\ st.onext[to] > 1 /\
       \E t \in 1..(st.onext[to] - 1) :
          \/ Do([a |-> "unsubscribe", o |-> o, to |-> to, t |-> t], Unsubscribe(st, o, to, t))
          \/ (o = to /\ Do([a |-> "state_unsubscribe", o |-> o, to |-> to, t |-> t], StateUnsubscribe(st, to, t)))

SetMaxH ==
  /\ Quiet /\ Budget /\ "setmaxh" \in Ctors
  /\ \E h \in 1..(MaxH + 1) : h # st.ahhMax /\
       Do([a |-> "set_max_height", h |-> h], ApiSetMaxHeight(st, h))

DropHandle ==
  /\ Quiet /\ Budget /\ "drop" \in Ctors
  /\ \/ \E n \in st.handles \ st.vhandles : Do([a |-> "drop", n |-> n], ApiDropHandle(st, n))
     \/ \E v \in st.vhandles : Do([a |-> "drop_var", n |-> v], ApiDropVar(st, v))

\* directed exhaustive families: a fixed program whose histories are enumerated
Scripted ==
  /\ Quiet /\ Scripting
  /\ LET a == Prog[acts + 1] IN Do(a, ApplyRaw(st, a))

Begin ==
  \* (a state poisoned by a panic raised outside stabilise - set_max_height_allowed - is not driven further:
  \*  its engine is intact and nothing is claimed about it; poisoned states stuck INSIDE a stabilise are
  \*  the business of BeginPoisoned)
  /\ Quiet /\ ~st.poisoned /\ ~Scripting /\ st.round < MaxRounds
  /\ st' = StabiliseBegin(ApiClearLogs(st))
  /\ hist' = Append(hist, [a |-> "stabilise"])
  /\ coneB' = ConeOf(st, ObservedNodes(st, LiveObs(st)), {})
  /\ acts' = acts + 1
  /\ UNCHANGED noops
Step ==
  /\ Ok(st) /\ ~st.poisoned /\ st.status = "stabilising" /\ (st.chain # 0 \/ ~HeapEmpty(st))
  /\ st' = StabiliseStep(st)
  /\ UNCHANGED <<hist, coneB, acts, noops>>
EndA ==
  /\ Ok(st) /\ ~st.poisoned /\ st.status = "stabilising" /\ st.chain = 0 /\ HeapEmpty(st)
  /\ st' = StabiliseEndA(st)
  /\ UNCHANGED <<hist, coneB, acts, noops>>
HandlersStep ==
  /\ Ok(st) /\ ~st.poisoned /\ ~st.poisoned /\ st.status = "handlers" /\ st.runq # <<>>
  /\ st' = StabiliseHandlersStep(st)
  /\ UNCHANGED <<hist, coneB, acts, noops>>

\* the reference prediction exported with each behaviour
SortedInv(s) ==
  LET ns == {s.inv[i].n : i \in 1..Len(s.inv)}
      RECURSIVE Go(_)
      Go(t) == IF t = {} THEN <<>> ELSE
               LET m == CHOOSE x \in t : \A y \in t : x <= y
                   e == s.inv[CHOOSE i \in 1..Len(s.inv) : s.inv[i].n = m]
               IN <<[n |-> m, args |-> e.args]>> \o Go(t \ {m})
  IN Go(ns)
Expect(s) ==
  [a |-> "expect",
   reads |-> [o \in 1..s.no |-> IF s.ostate[o] = "inuse" /\ ~ExactCone(s, s.onode[o])
                                 THEN <<"skip", "">> ELSE RefReadS(s, o)],
   rtags |-> [o \in 1..s.no |-> ValueTag(s, o)],
   inv |-> SortedInv(s),
   cone |-> LET c == coneB \cup ConeOf(s, ObservedNodes(s, LinkedObs(s)), {}) IN
            [n \in 1..s.n |-> n \in c],
   \* needed when stabilise was called but not when it returns: whether such a node is recomputed
   \* depends on the engine's schedule, so its invocation is optional (see IncrTrace.JudgeInv)
   opt |-> LET c == coneB \ ConeOf(s, ObservedNodes(s, LinkedObs(s)), {}) IN
           [n \in 1..s.n |-> n \in c],
   \* allocation check: ids are only comparable while every node was created in the same scope
   scopes |-> [n \in 1..s.n |-> s.scope[n]],
   \* nodes made by a memoised function: their scope is what C20 is about
   memomade |-> [n \in 1..s.n |-> \E m \in 1..Len(s.memos) : \E i \in 1..Len(s.memos[m].table) : s.memos[m].table[i].node = n],
   dlvmin |-> LET d == RefDlvMin(s)
                  RECURSIVE Go(_)
                  Go(t) == IF t = {} THEN <<>> ELSE
                           LET m == CHOOSE x \in t : \A y \in t : (x.o < y.o \/ (x.o = y.o /\ x.t <= y.t))
                           IN <<m>> \o Go(t \ {m})
              IN Go(d),
   dlv |-> LET d == RefDlvMax(s)
               RECURSIVE Go(_)
               Go(t) == IF t = {} THEN <<>> ELSE
                        LET m == CHOOSE x \in t : \A y \in t : (x.o < y.o \/ (x.o = y.o /\ x.t <= y.t))
                        IN <<m>> \o Go(t \ {m})
           IN Go(d),
   released |-> [n \in 1..s.n |-> n \in Released(StabiliseFinish(s))],
   touched |-> [o \in 1..s.no |-> s.onode[o] \in s.obsTouched],
   stale |-> [n \in 1..s.n |-> s.scope[n] # 0 /\ s.born[n] < s.gen[s.scope[n]]],
   necessary |-> Cardinality({n \in 1..s.n : Alive(s, n) /\ Nec(s, n)}),
   memo |-> s.memoLog,
   ndlv |-> s.ndlv,
   cut |-> s.cutLog,
   inreads |-> s.readLog,
   rets |-> s.retLog,
   stable |-> s.rchLen = 0,   \* FALSE = propagation pending, is_stable() must be false
   cells |-> [n \in 1..s.n |-> s.cell[n]]]
Finish ==
  /\ Ok(st) /\ ~st.poisoned /\ st.status = "handlers" /\ st.runq = <<>>
  /\ st' = Settle(StabiliseFinish(st))
  /\ hist' = Append(hist, Expect(st))
  /\ UNCHANGED <<coneB, acts, noops>>

\* a panic escaped the last public call and is caught by the caller
PanicClass(s) == CASE s.panic = "panic:user" -> "user" [] s.panic = "panic:status" -> "status"
                   [] s.panic = "panic:max_height_seen" -> "max_height_seen"
                   [] s.panic = "panic:assert_foreign" -> "foreign"
                   [] s.panic = "panic:height" -> "height" [] s.panic = "panic:cyclic" -> "cyclic"
                   [] OTHER -> "other"
RecoverA ==
  /\ ~Ok(st)
  /\ st' = Recover(st)
  /\ hist' = Append(hist, [a |-> "expect_panic", class |-> PanicClass(st),
                           reads |-> [o \in 1..st.no |-> RefReadS(Recover(st), o)]])
  /\ UNCHANGED <<coneB, acts, noops>>
\* C13/C19: a further stabilise on a poisoned state refuses to run
BeginPoisoned ==
  \* (once per behaviour; `refused` is part of the state so that the attempt is not deduplicated away)
  /\ Ok(st) /\ st.poisoned /\ st.status # "idle" /\ st.refused = 0
  /\ st' = StabiliseBegin(ApiClearLogs([st EXCEPT !.refused = 1]))
  /\ hist' = Append(hist, [a |-> "stabilise"])
  /\ acts' = acts + 1
  /\ UNCHANGED <<coneB, noops>>

Init == /\ st = InitState(MaxH) /\ hist = <<>> /\ coneB = {} /\ acts = 0 /\ noops = NoNoop
Next == Scripted \/ Create \/ CloneObs \/ SetMaxH \/ DropHandle \/ Write \/ SubscribeA \/ UnsubscribeA \/ Observe \/ ObserveLeaked \/ DropObs \/ Disallow \/ XArm \/ OnUpdateA
        \/ Begin \/ Step \/ EndA \/ HandlersStep \/ Finish \/ RecoverA \/ BeginPoisoned
Spec == Init /\ [][Next]_vars
\* counters and the round number never influence behaviour: keep them out of the fingerprint
View == <<[st EXCEPT !.stats = 0, !.round = 0], noops>>

---------------------------------------------------------------------------
(* Invariants (property predicates of IncrRef on the engine state)          *)
NoPanic == Ok(st) \/ st.panic = "panic:user"
           \/ ("limits" \in Ctors /\ st.panic \in {"panic:height", "panic:max_height_seen"})
           \/ ("cyclic" \in Ctors /\ st.panic \in {"panic:cyclic", "panic:bind_not_necessary"})
           \/ ("foreign" \in RecipeKinds /\ st.panic = "panic:assert_foreign")
           \/ (st.poisoned /\ st.panic = "panic:height") \/ (st.poisoned /\ st.panic = "panic:status")
           \/ (("stabilise" \in Effs) /\ st.panic = "panic:status")
InvObsCorrect == ObsCorrect(st)
InvInvalidity == Invalidity(st)
InvAtMostOnce == AtMostOnce(st)
InvFinalArgs == FinalArgs(st)
InvNoStaleRun == NoStaleRun(st)
InvOnlyNeeded == OnlyNeeded(st, coneB)
InvAudit == Audit(st)
InvExactUpdates == ExactUpdates(st)
\* diagnostic: which part of the audit fails (prints the failing parts)
InvAuditParts == (Ok(st) /\ st.status = "idle" /\ AuditParts(st) # {}) => (PrintT(<<"AUDIT-PARTS", AuditParts(st)>>) /\ FALSE)
InvHeightExact == HeightExact(st)

\* behaviour export: one REPLAY line per maximal behaviour
Done == /\ Ok(st) /\ Len(hist) > 0
        /\ \/ (st.status = "idle" /\ (st.round >= MaxRounds \/ acts >= MaxActs) /\ hist[Len(hist)].a = "expect")
           \/ (st.poisoned /\ st.refused = 1 /\ hist[Len(hist)].a = "expect_panic")
\* stratified sampling: behaviours with a no-op action are rare and are sampled three times as densely
RareMod == IF ExportMod <= 3 THEN 1 ELSE ExportMod \div 3
InvExport == (Export /\ Done /\ (\/ ExportMod = 1
                                  \/ (noops # NoNoop /\ RandomElement(1..RareMod) = 1)
                                  \* histories that end with every observer gone (work must have stopped)
                                  \/ (st.no > 0 /\ LiveObs(st) \cup LinkedObs(st) = {} /\ RandomElement(1..RareMod) = 1)
                                  \/ RandomElement(1..ExportMod) = 1))
                => PrintT(<<"REPLAY", ToJson(hist)>>)

---------------------------------------------------------------------------
(* Scripted programs (shapes that need more nodes than exhaustive program enumeration reaches) *)
NoProg == <<>>
\* a cut-off input under a dependant that loses and regains its observer (K = 3)
ProgCutReobs == <<[a |-> "var", v |-> I(1)], [a |-> "map", f |-> "min1", in |-> 1, eff |-> <<>>],
                  [a |-> "map", f |-> "id", in |-> 2, eff |-> <<>>]>>
\* a bind whose lhs has another dependant, whose right-hand sides are an outer chain taller than
\* its lhs_change node and a second var, with a plain map on top (K = 3)
ProgBindTall == <<[a |-> "var", v |-> I(0)], [a |-> "var", v |-> I(0)], [a |-> "var", v |-> I(2)],
                  [a |-> "map", f |-> "id", in |-> 2, eff |-> <<>>], [a |-> "map", f |-> "id", in |-> 4, eff |-> <<>>],
                  [a |-> "bind", in |-> 1, recipe |-> [r |-> "pick", alts |-> <<5, 3, 3>>]],
                  [a |-> "map", f |-> "id", in |-> 7, eff |-> <<>>],
                  [a |-> "map", f |-> "id", in |-> 1, eff |-> <<>>]>>
\* a bind that switches to taller and taller right-hand sides under a map2 consumer (K = 3)
ProgGrow == <<[a |-> "var", v |-> I(0)], [a |-> "var", v |-> I(0)],
              [a |-> "bind", in |-> 1, recipe |-> [r |-> "alt", alts |-> <<[r |-> "pick", alts |-> <<2, 2, 2>>],
                                                                   [r |-> "chain", f |-> "add", over |-> 2, len |-> 2],
                                                                   [r |-> "chain", f |-> "add", over |-> 2, len |-> 4]>>]],
              [a |-> "map2", f |-> "add", in |-> <<4, 2>>]>>
\* pair var -> map_ref with an order-sensitive cutoff -> dependant (K = 3)
ProgRefCut == <<[a |-> "var", v |-> P(0, 0)], [a |-> "mapref", f |-> "fst", in |-> 1],
                [a |-> "cutoff", n |-> 2, c |-> "le"], [a |-> "map", f |-> "id", in |-> 2, eff |-> <<>>]>>
\* two vars, a map on the first that updates the second while stabilising (K = 2)
ProgUpdateOther == <<[a |-> "var", v |-> I(0)], [a |-> "var", v |-> I(0)],
                     [a |-> "map", f |-> "id", in |-> 1, eff |-> <<[e |-> "set", v |-> 2, op |-> "update", x |-> NoVal]>>]>>

\* a callback-maintained dynamic sum over a var that can be observed / unobserved separately (K = 3)
ProgXSum == <<[a |-> "var", v |-> I(0)], [a |-> "var", v |-> I(1)], [a |-> "xsum", sel |-> 1, ins |-> <<2, 2>>]>>
\* join over a Var<Incr> that can point at a plain var or at a map over it (K = 2)
ProgXJoin == <<[a |-> "var", v |-> I(0)], [a |-> "map", f |-> "inc", in |-> 1, eff |-> <<>>],
               [a |-> "var", v |-> NR(1)], [a |-> "xjoin", in |-> 3]>>

\* a cell node (the per-key node of incr_mapi_) that a bind on ANOTHER var connects / disconnects,
\* while its controlling node stays observed (K = 2): var m, cell over m, var w, bind w -> pick [cell, w]
ProgXCell == <<[a |-> "var", v |-> I(0)], [a |-> "xcell", in |-> 1], [a |-> "var", v |-> I(0)],
               [a |-> "bind", in |-> 4, recipe |-> [r |-> "pick", alts |-> <<2, 4>>]]>>

\* two binds sharing one memoised builder (created at top level), keyed by their lhs values (K = 2)
ProgMemo == <<[a |-> "var", v |-> I(0)], [a |-> "var", v |-> I(0)], [a |-> "memo_new", f |-> "const", over |-> 0],
              [a |-> "bind", in |-> 1, recipe |-> [r |-> "memo", m |-> 1]],
              [a |-> "bind", in |-> 2, recipe |-> [r |-> "memo", m |-> 1]]>>

\* height limit reached only through adjust_heights: a bind that can switch from a low node to a
\* taller pre-existing one, under a chain of consumers (K = 2, MaxH = 5)
ProgHeightBind == <<[a |-> "var", v |-> I(0)], [a |-> "var", v |-> I(0)],
                    [a |-> "map", f |-> "id", in |-> 2, eff |-> <<>>], [a |-> "map", f |-> "id", in |-> 3, eff |-> <<>>],
                    [a |-> "bind", in |-> 1, recipe |-> [r |-> "pick", alts |-> <<2, 4>>]],
                    [a |-> "map", f |-> "id", in |-> 6, eff |-> <<>>], [a |-> "map", f |-> "id", in |-> 7, eff |-> <<>>]>>
\* a cycle that closes through a SCOPE edge: the outer bind creates r (node 8, handed out), the inner
\* bind - the outer bind's lhs - can be made to return r through a Var<Incr> (K = 2)
ProgScopeCycle == <<[a |-> "var", v |-> I(0)], [a |-> "var", v |-> NR(1)],
                    [a |-> "bind", in |-> 2, recipe |-> [r |-> "ref"]],
                    [a |-> "bind", in |-> 4, recipe |-> [r |-> "leak", then |-> [r |-> "map", f |-> "add", over |-> 1]]]>>

\* one observer with two subscriptions on a var: every history of unsubscribes / writes / stabilises (K = 2)
ProgSubs == <<[a |-> "var", v |-> I(0)], [a |-> "observe", n |-> 1],
              [a |-> "subscribe", o |-> 1, eff |-> <<>>], [a |-> "subscribe", o |-> 1, eff |-> <<>>]>>
\* a subscription whose handler panics, next to a map whose function panics at its 2nd run (K = 2)
ProgPanic == <<[a |-> "var", v |-> I(0)], [a |-> "map", f |-> "id", in |-> 1, eff |-> <<[e |-> "panic", at |-> 2]>>],
               [a |-> "observe", n |-> 1], [a |-> "subscribe", o |-> 1, eff |-> <<[e |-> "panic", at |-> 0]>>]>>

\* crash points other than node functions (C13): a bind whose closure panics on BoomVal, a node with a
\* panicking cutoff function below an observed dependant, an expert node whose observability
\* callback is armed while another observed node has pending changes (K = 2)
ProgBoom == <<[a |-> "var", v |-> I(0)], [a |-> "map", f |-> "id", in |-> 1, eff |-> <<>>],
              [a |-> "cutoff", n |-> 2, c |-> "boom"], [a |-> "map", f |-> "inc", in |-> 2, eff |-> <<>>],
              [a |-> "bind", in |-> 1, recipe |-> [r |-> "boom", then |-> [r |-> "map", f |-> "add", over |-> 3]]]>>
ProgXArm == <<[a |-> "var", v |-> I(0)], [a |-> "map", f |-> "inc", in |-> 1, eff |-> <<>>],
              [a |-> "xcell", in |-> 1], [a |-> "map2", f |-> "add", in |-> <<3, 1>>]>>

\* depend_on below a dependant, its input kept needed by another observer while the depend_on subtree
\* is unobserved and re-observed (its cutoff compares change stamps, not values)
ProgDepCut == <<[a |-> "var", v |-> I(0)], [a |-> "map", f |-> "inc", in |-> 1, eff |-> <<>>],
                [a |-> "dependon", in |-> <<1, 2>>], [a |-> "map", f |-> "inc", in |-> 3, eff |-> <<>>]>>
\* a bind created inside another bind whose own lhs (a var) is SHALLOWER than the outer lhs (a map),
\* its rhs reading a third input: the inner scope's height is bounded by the outer scope, not by its lhs
ProgNestShallow == <<[a |-> "var", v |-> I(0)], [a |-> "map", f |-> "id", in |-> 1, eff |-> <<>>],
                     [a |-> "var", v |-> I(0)], [a |-> "var", v |-> I(0)],
                     [a |-> "bind", in |-> 2, recipe |-> [r |-> "bind", over |-> 3,
                                                         inner |-> [r |-> "map", f |-> "add", over |-> 4]]]>>
\* an rhs node handed out of its bind and observed on its own is invalidated WHILE needed (the bind
\* re-fires); afterwards every observer goes away and a variable below it is written
ProgLeakInv == <<[a |-> "var", v |-> I(0)], [a |-> "var", v |-> I(0)], [a |-> "map", f |-> "id", in |-> 2, eff |-> <<>>],
                 [a |-> "bind", in |-> 1, recipe |-> [r |-> "leak", then |-> [r |-> "map", f |-> "add", over |-> 3]]]>>
\* a node shared (in different input slots) by a plain map and by a callback-maintained dynamic sum:
\* consumers come and go in every order, then the shared node changes (K = 3)
ProgXSumShared == <<[a |-> "var", v |-> I(1)], [a |-> "var", v |-> I(0)], [a |-> "map", f |-> "id", in |-> 2, eff |-> <<>>],
                    [a |-> "xsum", sel |-> 1, ins |-> <<2, 2>>]>>
\* the controlling node of a dynamic sum stays observed while the sum itself is not, adds a dependency
\* meanwhile, and the sum is observed again (K = 3)
\* (a map2 over the controller and the summand keeps both needed - and the summand computed - meanwhile)
ProgXSumCtl == <<[a |-> "var", v |-> I(0)], [a |-> "const", v |-> I(1)], [a |-> "xsum", sel |-> 1, ins |-> <<2, 2>>],
                 [a |-> "map2", f |-> "add", in |-> <<4, 2>>]>>

\* compact view of a state for counterexamples
Alias == [status |-> st.status, panic |-> st.panic, num |-> st.num, chain |-> st.chain,
          def |-> st.def, val |-> st.val, valid |-> st.valid, height |-> st.height,
          par |-> st.par, rch |-> st.rch, rhs |-> st.rhs, created |-> st.created,
          recAt |-> st.recAt, chgAt |-> st.chgAt, cell |-> st.cell, inv |-> st.inv,
          order |-> st.order, ostate |-> st.ostate, numH |-> st.numH, dlv |-> st.dlv,
          histJson |-> ToJson(hist)]
=============================================================================
