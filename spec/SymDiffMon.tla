----------------------------- MODULE SymDiffMon -----------------------------
(***************************************************************************)
(* C18 trace checker.  Input (env TRACE): ndjson written by                *)
(*   harness/target/debug/symdiff --random N --seed S --out-trace FILE     *)
(* one line per random pair of maps:                                       *)
(*   {"m1":[[k,v]..],"m2":[..],                                            *)
(*    "visited":{"btree":[[k,tag,old,new]..],"rc":..,"ord":..,             *)
(*               "ord_shared":..}}                                         *)
(* where visited.T is what the REAL symmetric_fold visited on map type T   *)
(* (ord_shared: the second OrdMap is derived from a clone of the first,    *)
(* so the trees share nodes).  One step per line; every visited sequence   *)
(* must equal DiffDef(m1, m2) of SymDiff.tla.  A mismatch prints           *)
(*   <<"JUDGE", line, "<json>">>                                           *)
(* and checking continues; the POSTCONDITION prints TRACE-DONE when every  *)
(* line has been consumed.                                                 *)
(***************************************************************************)
EXTENDS Integers, Sequences, TLC, TLCExt, Json, IOUtils

\* only the definitions of SymDiff are used; its machine variables are stubbed
D == INSTANCE SymDiff WITH mk <- "mon", inp <- <<>>, a <- <<>>, b <- <<>>, fused <- "None",
                           out <- <<>>, acc <- <<>>, done <- TRUE, n <- 0

Rec == ndJsonDeserialize(IOEnv.TRACE)

VARIABLE l   \* number of lines consumed

Types == {"btree", "rc", "ord", "ord_shared"}

\* JSON arrays arrive as tuples; rebuild them so that comparison with DiffDef is tuple vs tuple
RECURSIVE AsSeq(_)
AsSeq(s) == IF Len(s) = 0 THEN <<>> ELSE <<Head(s)>> \o AsSeq(Tail(s))

Bad(e) ==
  LET m1 == AsSeq(e.m1)  m2 == AsSeq(e.m2)
      def == D!DiffDef(m1, m2)
  IN IF ~(D!IsMap(m1) /\ D!IsMap(m2)) THEN {"input-not-a-map"}
     ELSE { t \in Types \cap DOMAIN e.visited : AsSeq(e.visited[t]) # def }

MonInit == l = 0
MonNext ==
  /\ l < Len(Rec)
  /\ LET e == Rec[l + 1]
         bad == Bad(e)
     IN bad # {} => PrintT(<<"JUDGE", l + 1, ToJson([types |-> bad, m1 |-> e.m1, m2 |-> e.m2,
                                                     expect |-> D!DiffDef(AsSeq(e.m1), AsSeq(e.m2)),
                                                     visited |-> e.visited])>>)
  /\ l' = l + 1

MonSpec == MonInit /\ [][MonNext]_l
MonView == <<l>>

MonAccepted ==
  LET d == TLCGet("stats").diameter IN
  IF d - 1 = Len(Rec) THEN PrintT(<<"TRACE-DONE", Len(Rec)>>)
  ELSE PrintT(<<"TRACE-STUCK", d, Len(Rec)>>) /\ FALSE
=============================================================================
