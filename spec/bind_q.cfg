SPECIFICATION Spec
CONSTANTS
  K = 2
  Debug = FALSE
  Fix = {"direct_guard"}
  Ctors = {"var", "map", "bind"}
  Fs1 = {"id"}
  Fs2 = {"add"}
  Cutoffs = {}
  RecipeKinds = {"map"}
  Ops = {"set"}
  MaxVars = 1
  MaxNodes = 5
  MaxObs = 2
  MaxActs = 11
  MaxRounds = 2
  MaxH = 16
  Late = FALSE
  Export = FALSE
VIEW View
INVARIANT NoPanic
INVARIANT InvObsCorrect
INVARIANT InvInvalidity
INVARIANT InvAtMostOnce
INVARIANT InvFinalArgs
INVARIANT InvNoStaleRun
INVARIANT InvOnlyNeeded
INVARIANT InvAudit
ALIAS Alias
CHECK_DEADLOCK FALSE
