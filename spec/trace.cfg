SPECIFICATION TraceSpec
CONSTANTS
  K = 2
  Debug = TRUE
  Fix = {"direct_guard"}
VIEW TraceView
POSTCONDITION TraceAccepted
CHECK_DEADLOCK FALSE
