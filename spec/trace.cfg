SPECIFICATION TraceSpec
CONSTANTS
  K = 2
  Debug = TRUE
  Fix = {}
VIEW TraceView
POSTCONDITION TraceAccepted
CHECK_DEADLOCK FALSE
