SPECIFICATION MCSpec
CONSTANTS
  DKeys = 3
  DVals = {0, 1}
  MKeys = 2
  MValsA = {0, 1}
  MValsB = {0, 1}
INVARIANT InputsAreMaps
INVARIANT InvPrefix
INVARIANT InvComplete
INVARIANT InvAscending
INVARIANT InvOnce
INVARIANT InvEqualNothing
INVARIANT InvExactKeys
INVARIANT InvMergePairs
INVARIANT InvStreams
INVARIANT InvCalls
INVARIANT InvDoneFixpoint
INVARIANT InvBound
INVARIANT InvExport
CHECK_DEADLOCK FALSE
