------------------------------ MODULE MapOps ------------------------------
(***************************************************************************)
(* The diff-based operators of the crate incremental-map (C15, C17):       *)
(* incr_map, incr_filter_map, incr_mapi, incr_filter_mapi,                  *)
(* incr_unordered_fold(_update), incr_merge, incr_partition(_mapi).         *)
(*                                                                         *)
(* Every operator is one `map_with_old` node of the engine wrapped by      *)
(* WithOldIO::with_old_input_output(2) (incremental-map/src/lib.rs:96-130): *)
(* the node keeps its previous output, the closure keeps `old_input`, and  *)
(* the step function f(Some(old_in, old_out) or None, input) returns       *)
(* (new_out, did_change).  Engine facts used (src/node.rs:642-652):        *)
(*  - the node runs in a stabilise iff it is necessary (observed) and it   *)
(*    never ran or its input node changed after its last run;              *)
(*  - while it is unobserved it keeps old output and old_input;            *)
(*  - dependants re-run only when did_change is true.                      *)
(* The input map is a Var: its node takes a new value (and a new version)  *)
(* in a stabilise only if the Var is necessary and the value set differs   *)
(* from the node's value (PartialEq cutoff).  incr_merge reads the zip     *)
(* (map2 + PartialEq cutoff) of two Vars.                                  *)
(*                                                                         *)
(* symmetric_fold is abstract here: it visits exactly the differing keys   *)
(* in ascending order (the iterators are modelled elsewhere).              *)
(*                                                                         *)
(* The whole state is one record `st`; actions are pure operators          *)
(* st' = Op(st, args).                                                     *)
(*                                                                         *)
(* Plain-sum folds ("fold_sum", "fold_sum_upd": add = acc + v, remove =    *)
(* acc - v, init = 0, values include 0): the accumulator of a NON-empty    *)
(* map can equal init, which the injective weights of the other fold       *)
(* instances exclude.                                                      *)
(*                                                                         *)
(* Chained operators ("chain_fm_map" = in.incr_filter_map(f).incr_map(g),  *)
(* "chain_fm_fold" = in.incr_filter_map(f).incr_unordered_fold(plain sum)):*)
(* the second map_with_old node reads the OUTPUT node of the first.  A     *)
(* map_with_old node has no PartialEq cutoff: whenever the first stage     *)
(* runs and reports did_change = true (its diff was non-empty, e.g. a key  *)
(* that is filtered out before and after the edit) the second stage runs,  *)
(* possibly with an input EQUAL to its stored old input: empty diff,       *)
(* did_change = false, no user function call, and the closure must still   *)
(* remember its input for the next real edit.  When the first stage        *)
(* reports did_change = false the second stage does not run.               *)
(***************************************************************************)
EXTENDS Integers, Sequences, FiniteSets, TLC

CONSTANTS NK,      \* keys are 1..NK
          NV,      \* values are 0..NV-1
          Ops      \* the operator instances that exist (subset of AllOps)

VARIABLE st

Keys == 1..NK
Vals == 0..(NV - 1)
KeySeq == [i \in 1..NK |-> i]
EmptyMap == <<>>
\* a map is a function from a subset of Keys to Vals
Maps == UNION {[D -> Vals] : D \in SUBSET Keys}

Has(m, k) == k \in DOMAIN m
MapPut(m, k, v) == [x \in (DOMAIN m) \cup {k} |-> IF x = k THEN v ELSE m[x]]
MapRemove(m, k) == [x \in (DOMAIN m) \ {k} |-> m[x]]
MapKeySeq(m) == SelectSeq(KeySeq, LAMBDA k : Has(m, k))
\* sorted sequence of <<k, v>> pairs (export format of a map)
MapSeq(m) == LET ks == MapKeySeq(m) IN [i \in 1..Len(ks) |-> <<ks[i], m[ks[i]]>>]

Differs(a, b, k) == \/ Has(a, k) # Has(b, k)
                    \/ (Has(a, k) /\ Has(b, k) /\ a[k] # b[k])
DiffKeys(a, b) == {k \in Keys : Differs(a, b, k)}
\* what symmetric_fold / symmetric_diff visit, in visiting order
DiffKeySeq(a, b) == SelectSeq(KeySeq, LAMBDA k : Differs(a, b, k))

Some(v) == [some |-> TRUE, v |-> v]
None == [some |-> FALSE, v |-> 0]

---------------------------------------------------------------------------
(* Operator instances and their user functions (the harness binary         *)
(* harness/src/bin/mapops.rs instantiates the real operators with the same *)
(* functions, instrumented).                                               *)
FmOps    == {"map", "filter_map", "mapi", "filter_mapi"}
SumFolds == {"fold_sum", "fold_sum_upd"}
FoldOps  == {"fold", "fold_rev", "fold_upd", "fold_upd_rev"} \cup SumFolds
PartOps  == {"partition", "partition_mapi"}
MergeOps == {"merge"}
ChainOps == {"chain_fm_map", "chain_fm_fold"}
AllOps   == FmOps \cup FoldOps \cup PartOps \cup MergeOps \cup ChainOps

\* the two stages of a chain are operators of their own (not instances): "chain_f" =
\* incr_filter_map(f), "chain_g" = incr_map(g); the fold stage is "fold_sum"
Stage1(o) == "chain_f"
Stage2(o) == IF o = "chain_fm_map" THEN "chain_g" ELSE "fold_sum"
StageFm == {"chain_f", "chain_g"}

Vars == {"in", "left", "right"}
Reads(o) == IF o \in MergeOps THEN <<"left", "right">> ELSE <<"in">>
ReadSet(o) == {Reads(o)[i] : i \in DOMAIN Reads(o)}

\* user functions of incr_map / incr_filter_map do not see the key: logged with key 0
Keyless(o) == o \in {"map", "filter_map", "chain_f", "chain_g"}
HasUpdate(o) == o \in {"fold_upd", "fold_upd_rev", "fold_sum_upd"}
Revert(o) == o \in {"fold_rev", "fold_upd_rev"} \cup PartOps   \* PartitionMapi: always true

Call(role, k, args) == [role |-> role, key |-> k, args |-> args]

\* incr_map f(v); incr_filter_map f(v); incr_mapi f(k,v); incr_filter_mapi f(k,v)
FmF(o, k, v) ==
  CASE o = "map"         -> Some(v + 1)
    [] o = "filter_map"  -> IF v = 0 THEN None ELSE Some(v + 10)
    [] o = "mapi"        -> Some(10 * k + v)
    [] o = "filter_mapi" -> IF (k + v) % 2 = 0 THEN None ELSE Some(10 * k + v)
    [] o = "chain_f"     -> IF v % 2 = 0 THEN None ELSE Some(v + 10)   \* stage 1 of the chains
    [] o = "chain_g"     -> Some(v + 100)                              \* stage 2 of chain_fm_map
\* the user function of the second stage of a chain is logged with role "g"
FmCall(o, k, v) == Call(IF o = "chain_g" THEN "g" ELSE "f", IF Keyless(o) THEN 0 ELSE k, <<v>>)

\* fold: an injective weighted sum (requires NV <= 4), add = +W, remove = -W, init 3;
\* SumFolds: the plain sum of the values, init 0 (a non-empty map may fold to init)
FoldInit == 3
W(k, v) == (v + 1) * 5 ^ (k - 1)
FInit(o) == IF o \in SumFolds THEN 0 ELSE FoldInit
FW(o, k, v) == IF o \in SumFolds THEN v ELSE W(k, v)

\* incr_partition pred(k,v) (wrapper clones v); incr_partition_mapi f(k,v) -> Either
PartF(o, k, v) ==
  IF o = "partition" THEN [left |-> (k + v) % 2 = 0, v |-> v]
  ELSE IF v = 0 THEN [left |-> TRUE, v |-> 10 * k] ELSE [left |-> FALSE, v |-> 100 + 10 * k + v]

\* incr_merge f(k, MergeElement): tag 1 = Left(l), 2 = Right(r), 3 = Both(l, r)
MergeF(k, tag, l, r) ==
  CASE tag = 1 -> Some(1000 + l)
    [] tag = 2 -> Some(2000 + r)
    [] tag = 3 -> IF l + r = 0 THEN None ELSE Some(3000 + 10 * l + r)

---------------------------------------------------------------------------
(* Definitions: the plain functions the observed outputs must equal (C15)  *)
FilterMapDef(o, m) ==
  LET D == {k \in DOMAIN m : FmF(o, k, m[k]).some} IN [k \in D |-> FmF(o, k, m[k]).v]

RECURSIVE SumW(_, _, _)
SumW(o, m, ks) == IF ks = <<>> THEN 0 ELSE FW(o, Head(ks), m[Head(ks)]) + SumW(o, m, Tail(ks))
FoldDef(o, m) == FInit(o) + SumW(o, m, MapKeySeq(m))

MergeOpt(l, r, k) ==
  CASE Has(l, k) /\ Has(r, k)  -> MergeF(k, 3, l[k], r[k])
    [] Has(l, k) /\ ~Has(r, k) -> MergeF(k, 1, l[k], 0)
    [] ~Has(l, k) /\ Has(r, k) -> MergeF(k, 2, 0, r[k])
    [] OTHER -> None
MergeDef(l, r) ==
  LET D == {k \in (DOMAIN l) \cup (DOMAIN r) : MergeOpt(l, r, k).some}
  IN [k \in D |-> MergeOpt(l, r, k).v]

PartitionDef(o, m) ==
  LET L == {k \in DOMAIN m : PartF(o, k, m[k]).left}
      R == (DOMAIN m) \ L
  IN <<[k \in L |-> PartF(o, k, m[k]).v], [k \in R |-> PartF(o, k, m[k]).v]>>

\* ins: sequence of the input maps the operator reads (<<m>> or <<left, right>>)
\* the intermediate map of a chain (output of its first stage)
MidDef(o, m) == FilterMapDef(Stage1(o), m)
Def(o, ins) ==
  CASE o \in FmOps    -> FilterMapDef(o, ins[1])
    [] o \in FoldOps  -> FoldDef(o, ins[1])
    [] o \in PartOps  -> PartitionDef(o, ins[1])
    [] o \in MergeOps -> MergeDef(ins[1], ins[2])
    [] o \in ChainOps -> IF Stage2(o) \in StageFm
                         THEN FilterMapDef(Stage2(o), MidDef(o, ins[1]))
                         ELSE FoldDef(Stage2(o), MidDef(o, ins[1]))

\* scalar output (a fold) or map output
ScalarOut(o) == o \in FoldOps \/ o = "chain_fm_fold"
\* a value of the operator's output type (placeholder before the first run)
OutDummy(o) == CASE ScalarOut(o) -> 0
                 [] o \in PartOps -> <<EmptyMap, EmptyMap>>
                 [] OTHER -> EmptyMap
\* export format of an output
OutJson(o, x) == CASE ScalarOut(o) -> x
                   [] o \in PartOps -> <<MapSeq(x[1]), MapSeq(x[2])>>
                   [] OTHER -> MapSeq(x)

---------------------------------------------------------------------------
(* Step functions, transcribed.  Result: [out, did, calls, mode];          *)
(* mode "init" = no previous run, "all" = the process-everything branch,   *)
(* "diff" = symmetric_fold over the differing keys.                        *)

(* lib.rs incr_filter_mapi:                                                 *)
(*   match (old, input.len()) {                                             *)
(*     (_, 0) | (None, _) => (input.filter_map_collect(f), true),           *)
(*     (Some((old_in, old_out)), _) => symmetric_fold: did_change = true;   *)
(*        Left -> remove; Right(new) | Unequal(_, new) -> f(key,new):       *)
(*        Some -> insert, None -> remove }                                  *)
RECURSIVE FmCollect(_, _, _, _)
FmCollect(o, m, ks, acc) ==
  IF ks = <<>> THEN acc
  ELSE LET k == Head(ks)
           r == FmF(o, k, m[k])
       IN FmCollect(o, m, Tail(ks),
             [out   |-> IF r.some THEN MapPut(acc.out, k, r.v) ELSE acc.out,
              calls |-> Append(acc.calls, FmCall(o, k, m[k]))])

RECURSIVE FmFold(_, _, _, _)
FmFold(o, new, ks, acc) ==
  IF ks = <<>> THEN acc
  ELSE LET k == Head(ks) IN
       IF ~Has(new, k)
       THEN FmFold(o, new, Tail(ks), [acc EXCEPT !.out = MapRemove(@, k)])
       ELSE LET r == FmF(o, k, new[k]) IN
            FmFold(o, new, Tail(ks),
               [out   |-> IF r.some THEN MapPut(acc.out, k, r.v) ELSE MapRemove(acc.out, k),
                calls |-> Append(acc.calls, FmCall(o, k, new[k]))])

FmStep(o, ran, oldIn, oldOut, new) ==
  IF DOMAIN new = {} \/ ~ran
  THEN LET a == FmCollect(o, new, MapKeySeq(new), [out |-> EmptyMap, calls |-> <<>>])
       IN [out |-> a.out, did |-> TRUE, calls |-> a.calls,
           mode |-> IF ~ran THEN "init" ELSE "all"]
  ELSE LET ks == DiffKeySeq(oldIn, new)
           a == FmFold(o, new, ks, [out |-> oldOut, calls |-> <<>>])
       IN [out |-> a.out, did |-> ks # <<>>, calls |-> a.calls, mode |-> "diff"]

(* UnorderedFold implementations: PlainUnorderedFold / UpdateUnorderedFold  *)
(* with the sum, and im_rc.rs PartitionMapi.  acc = [out, calls].           *)
UInit(o) == IF o \in FoldOps THEN FInit(o) ELSE <<EmptyMap, EmptyMap>>

UAdd(o, acc, k, v) ==
  IF o \in FoldOps
  THEN [out |-> acc.out + FW(o, k, v), calls |-> Append(acc.calls, Call("add", k, <<v>>))]
  ELSE LET e == PartF(o, k, v) IN
       [out   |-> IF e.left THEN <<MapPut(acc.out[1], k, e.v), acc.out[2]>>
                            ELSE <<acc.out[1], MapPut(acc.out[2], k, e.v)>>,
        calls |-> Append(acc.calls, Call("f", k, <<v>>))]

URemove(o, acc, k, v) ==
  IF o \in FoldOps
  THEN [out |-> acc.out - FW(o, k, v), calls |-> Append(acc.calls, Call("remove", k, <<v>>))]
  ELSE [out |-> <<MapRemove(acc.out[1], k), MapRemove(acc.out[2], k)>>, calls |-> acc.calls]

UUpdate(o, acc, k, old, new) ==
  IF o \in FoldOps
  THEN IF HasUpdate(o)
       THEN [out   |-> acc.out - FW(o, k, old) + FW(o, k, new),
             calls |-> Append(acc.calls, Call("update", k, <<old, new>>))]
       ELSE UAdd(o, URemove(o, acc, k, old), k, new)   \* trait default: remove then add
  ELSE LET e == PartF(o, k, new) IN
       [out   |-> IF e.left THEN <<MapPut(acc.out[1], k, e.v), MapRemove(acc.out[2], k)>>
                            ELSE <<MapRemove(acc.out[1], k), MapPut(acc.out[2], k, e.v)>>,
        calls |-> Append(acc.calls, Call("f", k, <<new>>))]

RECURSIVE UInitialFold(_, _, _, _)
UInitialFold(o, m, ks, acc) ==
  IF ks = <<>> THEN acc ELSE UInitialFold(o, m, Tail(ks), UAdd(o, acc, Head(ks), m[Head(ks)]))

RECURSIVE UFold(_, _, _, _, _)
UFold(o, old, new, ks, acc) ==
  IF ks = <<>> THEN acc
  ELSE LET k == Head(ks) IN
       UFold(o, old, new, Tail(ks),
             CASE ~Has(new, k) -> URemove(o, acc, k, old[k])           \* DiffElement::Left
               [] ~Has(old, k) -> UAdd(o, acc, k, new[k])              \* DiffElement::Right
               [] OTHER        -> UUpdate(o, acc, k, old[k], new[k]))  \* DiffElement::Unequal

(* lib.rs incr_unordered_fold_with:                                         *)
(*   None => (fold.initial_fold(init, new_in), true)                        *)
(*   Some((old_in, old_out)) =>                                             *)
(*     if revert_to_init_when_empty && new_in.is_empty()                    *)
(*        { return (init, !old_in.is_empty()) }                             *)
(*     symmetric_fold(old_in, new_in, old_out, ..did_change = true..)       *)
UStep(o, ran, oldIn, oldOut, new) ==
  IF ~ran
  THEN LET a == UInitialFold(o, new, MapKeySeq(new), [out |-> UInit(o), calls |-> <<>>])
       IN [out |-> a.out, did |-> TRUE, calls |-> a.calls, mode |-> "init"]
  ELSE IF Revert(o) /\ DOMAIN new = {}
  THEN [out |-> UInit(o), did |-> DOMAIN oldIn # {}, calls |-> <<>>, mode |-> "all"]
  ELSE LET ks == DiffKeySeq(oldIn, new)
           a == UFold(o, oldIn, new, ks, [out |-> oldOut, calls |-> <<>>])
       IN [out |-> a.out, did |-> ks # <<>>, calls |-> a.calls, mode |-> "diff"]

(* btree_map.rs / im_rc.rs incr_merge + merge_shared_impl: old = None is    *)
(* three empty maps; MergeOnceWith merges the two ascending diffs, one      *)
(* element per key: Both / Left / Right.                                    *)
(*   data = Both  -> (left_diff.new_data(), right_diff.new_data())          *)
(*          Left  -> (left_diff.new_data(), new_right.get(key))             *)
(*          Right -> (new_left.get(key), right_diff.new_data())             *)
(*   (None,None) -> None; otherwise f(key, Left/Right/Both); None -> remove *)
(*   Some(r) -> insert.  did_change = some element visited.                 *)
NewData(old, new, k) == IF Has(new, k) THEN Some(new[k]) ELSE None   \* DiffElement::new_data
Get(m, k) == IF Has(m, k) THEN Some(m[k]) ELSE None

RECURSIVE MergeFold(_, _, _, _, _, _)
MergeFold(ol, orr, nl, nr, ks, acc) ==
  IF ks = <<>> THEN acc
  ELSE LET k == Head(ks)
           inL == Differs(ol, nl, k)
           inR == Differs(orr, nr, k)
           dl == IF inL THEN NewData(ol, nl, k) ELSE Get(nl, k)
           dr == IF inR THEN NewData(orr, nr, k) ELSE Get(nr, k)
           tag == IF dl.some /\ dr.some THEN 3 ELSE IF dl.some THEN 1 ELSE IF dr.some THEN 2 ELSE 0
           res == IF tag = 0 THEN None ELSE MergeF(k, tag, dl.v, dr.v)
       IN MergeFold(ol, orr, nl, nr, Tail(ks),
            [out   |-> IF res.some THEN MapPut(acc.out, k, res.v) ELSE MapRemove(acc.out, k),
             calls |-> IF tag = 0 THEN acc.calls
                       ELSE Append(acc.calls, Call("merge", k, <<tag, dl.v, dr.v>>))])

MergeStep(ran, oldIn, oldOut, nl, nr) ==
  LET ol == IF ran THEN oldIn[1] ELSE EmptyMap
      orr == IF ran THEN oldIn[2] ELSE EmptyMap
      oo == IF ran THEN oldOut ELSE EmptyMap
      ks == SelectSeq(KeySeq, LAMBDA k : Differs(ol, nl, k) \/ Differs(orr, nr, k))
      a == MergeFold(ol, orr, nl, nr, ks, [out |-> oo, calls |-> <<>>])
  IN [out |-> a.out, did |-> ks # <<>>, calls |-> a.calls,
      mode |-> IF ran THEN "diff" ELSE "init"]

Step(o, ran, oldIn, oldOut, ins) ==
  CASE o \in FmOps               -> FmStep(o, ran, oldIn[1], oldOut, ins[1])
    [] o \in FoldOps \cup PartOps -> UStep(o, ran, oldIn[1], oldOut, ins[1])
    [] o \in MergeOps            -> MergeStep(ran, oldIn, oldOut, ins[1], ins[2])

---------------------------------------------------------------------------
(* State                                                                    *)
(*  inp[w]   value last set on Var w                                        *)
(*  node[w]  value of the Var's node (Some after its first computation)     *)
(*  ver[w]   how often the node's value changed (changed_at)                *)
(*  op[o]:   ran, out (map_with_old node value), down (value of a           *)
(*           dependant `op.map(clone)`, re-run only on did_change),         *)
(*           oldIn (closure state old_input), observed, ranInputVersion,    *)
(*           calls (ghost: user function invocations of the current round), *)
(*           last (ghost: what the last Stabilise did with this operator)   *)
(*  clean    TRUE right after Stabilise                                     *)
(* A chain has in addition: mid (value of the first stage's node; ran,      *)
(* oldIn, ranInputVersion, last describe the first stage), ran2, oldIn2     *)
(* (closure state of the second stage: the intermediate map it saw at its   *)
(* last run), last2 (ghost, second stage); out / down are the second        *)
(* stage's node and its dependant; calls holds the calls of both stages     *)
(* (role "f" = first stage, "g" / "add" / "remove" = second stage).         *)
OpInitBase(o) ==
  [ran |-> FALSE, out |-> OutDummy(o), down |-> OutDummy(o),
   oldIn |-> [i \in DOMAIN Reads(o) |-> EmptyMap], observed |-> FALSE,
   ranInputVersion |-> [i \in DOMAIN Reads(o) |-> 0], calls |-> <<>>,
   last |-> [ranNow |-> FALSE, first |-> FALSE, mode |-> "none", did |-> FALSE,
             prevIn |-> [i \in DOMAIN Reads(o) |-> EmptyMap], prevOut |-> OutDummy(o)]]
OpInit(o) ==
  IF o \notin ChainOps THEN OpInitBase(o)
  ELSE [OpInitBase(o) EXCEPT !.last.prevOut = EmptyMap] @@
       [mid |-> EmptyMap, ran2 |-> FALSE, oldIn2 |-> EmptyMap,
        last2 |-> [ranNow |-> FALSE, first |-> FALSE, mode |-> "none", did |-> FALSE,
                   prevIn |-> EmptyMap, prevOut |-> OutDummy(o)]]

InitState ==
  [inp |-> [w \in Vars |-> EmptyMap], node |-> [w \in Vars |-> None],
   ver |-> [w \in Vars |-> 0], op |-> [o \in Ops |-> OpInit(o)], clean |-> TRUE]

SetInputOp(s, w, m) == [s EXCEPT !.inp[w] = m, !.clean = FALSE]
ObserveOp(s, o) == [s EXCEPT !.op[o].observed = TRUE, !.clean = FALSE]
UnobserveOp(s, o) == [s EXCEPT !.op[o].observed = FALSE, !.clean = FALSE]

StabiliseOp(s) ==
  LET nec(w) == \E o \in Ops : s.op[o].observed /\ w \in ReadSet(o)
      chg(w) == nec(w) /\ (~s.node[w].some \/ s.node[w].v # s.inp[w])
      node2 == [w \in Vars |-> IF chg(w) THEN Some(s.inp[w]) ELSE s.node[w]]
      ver2 == [w \in Vars |-> IF chg(w) THEN s.ver[w] + 1 ELSE s.ver[w]]
      idle(r) == IF "last2" \in DOMAIN r
                 THEN [r EXCEPT !.calls = <<>>, !.last.ranNow = FALSE, !.last2.ranNow = FALSE]
                 ELSE [r EXCEPT !.calls = <<>>, !.last.ranNow = FALSE]
      \* a chain: the first stage runs like any operator; the second stage (a map_with_old
      \* node whose input is the first stage's node) runs iff it never ran or the first stage
      \* reported did_change -- also when the intermediate map is equal to the one it stored
      RunChain(o, r, ins, vers) ==
        LET s1 == FmStep(Stage1(o), r.ran, r.oldIn[1], r.mid, ins[1])
            run2 == s1.did \/ ~r.ran2
            s2 == IF Stage2(o) \in StageFm
                  THEN FmStep(Stage2(o), r.ran2, r.oldIn2, r.out, s1.out)
                  ELSE UStep(Stage2(o), r.ran2, r.oldIn2, r.out, s1.out)
        IN [ran |-> TRUE, mid |-> s1.out, oldIn |-> ins, observed |-> TRUE,
            ranInputVersion |-> vers,
            ran2 |-> r.ran2 \/ run2,
            out |-> IF run2 THEN s2.out ELSE r.out,
            oldIn2 |-> IF run2 THEN s1.out ELSE r.oldIn2,
            down |-> IF run2 /\ (s2.did \/ ~r.ran2) THEN s2.out ELSE r.down,
            calls |-> IF run2 THEN s1.calls \o s2.calls ELSE s1.calls,
            last |-> [ranNow |-> TRUE, first |-> ~r.ran, mode |-> s1.mode, did |-> s1.did,
                      prevIn |-> r.oldIn, prevOut |-> r.mid],
            last2 |-> IF run2
                      THEN [ranNow |-> TRUE, first |-> ~r.ran2, mode |-> s2.mode, did |-> s2.did,
                            prevIn |-> r.oldIn2, prevOut |-> r.out]
                      ELSE [r.last2 EXCEPT !.ranNow = FALSE, !.first = FALSE]]
      RunOp(o) ==
        LET r == s.op[o]
            ins == [i \in DOMAIN Reads(o) |-> node2[Reads(o)[i]].v]
            vers == [i \in DOMAIN Reads(o) |-> ver2[Reads(o)[i]]]
            stale == ~r.ran \/ \E i \in DOMAIN vers : vers[i] > r.ranInputVersion[i]
        IN IF ~r.observed \/ ~stale THEN idle(r)
           ELSE IF o \in MergeOps /\ r.ran /\ ins = r.oldIn
           THEN \* zip recomputes to an equal tuple: cutoff, map_with_old does not run
                [idle(r) EXCEPT !.ranInputVersion = vers]
           ELSE IF o \in ChainOps THEN RunChain(o, r, ins, vers)
           ELSE LET res == Step(o, r.ran, r.oldIn, r.out, ins) IN
                [ran |-> TRUE, out |-> res.out,
                 down |-> IF res.did \/ ~r.ran THEN res.out ELSE r.down,
                 oldIn |-> ins, observed |-> TRUE, ranInputVersion |-> vers,
                 calls |-> res.calls,
                 last |-> [ranNow |-> TRUE, first |-> ~r.ran, mode |-> res.mode,
                           did |-> res.did, prevIn |-> r.oldIn, prevOut |-> r.out]]
  IN [s EXCEPT !.node = node2, !.ver = ver2, !.op = [o \in Ops |-> RunOp(o)], !.clean = TRUE]

CurIns(s, o) == [i \in DOMAIN Reads(o) |-> s.inp[Reads(o)[i]]]

Init == st = InitState
Next == \/ \E w \in Vars, m \in Maps : st' = SetInputOp(st, w, m)
        \/ \E o \in Ops : ~st.op[o].observed /\ st' = ObserveOp(st, o)
        \/ \E o \in Ops : st.op[o].observed /\ st' = UnobserveOp(st, o)
        \/ ~st.clean /\ st' = StabiliseOp(st)
Spec == Init /\ [][Next]_st

---------------------------------------------------------------------------
(* Properties                                                               *)

\* C15: after a stabilise every observed operator shows the plain function of the
\* current inputs, directly and through a dependant
\* a chain: moreover the intermediate map is the plain function of the input and the second
\* stage remembers the intermediate map it saw last
OpCorrectAt(s, o) ==
  LET r == s.op[o] IN
  (s.clean /\ r.observed) =>
     /\ r.ran /\ r.out = Def(o, CurIns(s, o)) /\ r.down = r.out
     /\ o \in ChainOps => (r.ran2 /\ r.mid = MidDef(o, s.inp["in"]) /\ r.oldIn2 = r.mid)
OpCorrect(s) == \A o \in Ops : OpCorrectAt(s, o)

\* keys a round may touch given the operator's input at its previous run (prev) and now (cur)
AllowedKeys(prev, cur) == UNION {DiffKeys(prev[i], cur[i]) : i \in DOMAIN cur}
AllKeys(prev, cur) == UNION {(DOMAIN prev[i]) \cup (DOMAIN cur[i]) : i \in DOMAIN cur}

\* C17 for one call log: keyed calls only on permitted keys, at most once per (key, role);
\* keyless calls (incr_map, incr_filter_map): no more calls than permitted keys and only on
\* the new values of permitted keys
ProportionalCalls(o, cs, keys, cur) ==
  /\ \A i, j \in DOMAIN cs : (i # j /\ cs[i].key # 0) => <<cs[i].key, cs[i].role>> # <<cs[j].key, cs[j].role>>
  /\ IF Keyless(o)
     THEN /\ Len(cs) <= Cardinality(keys)
          /\ \A i \in DOMAIN cs : \E k \in keys \cap DOMAIN cur[1] : cs[i].args[1] = cur[1][k]
     ELSE \A i \in DOMAIN cs : cs[i].key \in keys

\* the calls of the first stage of a chain (role "f") / of its second stage
Stage1Calls(cs) == SelectSeq(cs, LAMBDA c : c.role = "f")
Stage2Calls(cs) == SelectSeq(cs, LAMBDA c : c.role # "f")

ProportionalAt(s, o) ==
  LET r == s.op[o]
      keys1 == IF r.last.first \/ r.last.mode = "all"
               THEN AllKeys(r.last.prevIn, r.oldIn)          \* may process every key once
               ELSE AllowedKeys(r.last.prevIn, r.oldIn)
  IN
  IF ~r.last.ranNow THEN r.calls = <<>>
  ELSE IF o \notin ChainOps THEN ProportionalCalls(o, r.calls, keys1, r.oldIn)
  ELSE \* each stage relative to ITS input: the second stage's input is the intermediate
       \* map, at its previous run (last2.prevIn) and now (oldIn2)
       /\ ProportionalCalls(Stage1(o), Stage1Calls(r.calls), keys1, r.oldIn)
       /\ IF ~r.last2.ranNow THEN Stage2Calls(r.calls) = <<>>
          ELSE ProportionalCalls(Stage2(o), Stage2Calls(r.calls),
                  IF r.last2.first \/ r.last2.mode = "all"
                  THEN AllKeys(<<r.last2.prevIn>>, <<r.oldIn2>>)
                  ELSE AllowedKeys(<<r.last2.prevIn>>, <<r.oldIn2>>),
                  <<r.oldIn2>>)
Proportional(s) == \A o \in Ops : ProportionalAt(s, o)

\* a changed output is always announced (dependants are never starved).  The first run
\* has no previous output; incr_merge of two empty maps reports did_change = false there,
\* which is harmless because a dependant that never ran runs anyway (OpCorrect checks `down`).
NoSpuriousChangeAt(s, o) ==
  LET r == s.op[o] IN
  IF o \notin ChainOps
  THEN (r.last.ranNow /\ ~r.last.first /\ r.out # r.last.prevOut) => r.last.did
  ELSE /\ (r.last.ranNow /\ ~r.last.first /\ r.mid # r.last.prevOut) => r.last.did
       /\ (r.last2.ranNow /\ ~r.last2.first /\ r.out # r.last2.prevOut) => r.last2.did
       \* the second stage runs exactly when the first one announced a change
       /\ r.last2.ranNow <=> (r.last.ranNow /\ (r.last.did \/ r.last2.first))
NoSpuriousChange(s) == \A o \in Ops : NoSpuriousChangeAt(s, o)

InvOpCorrect == OpCorrect(st)
InvProportional == Proportional(st)
InvNoSpuriousChange == NoSpuriousChange(st)
=============================================================================
