----------------------------- MODULE MC_MapOps -----------------------------
(***************************************************************************)
(* Bounded exploration of MapOps: at Init a set `active` of operator       *)
(* instances is chosen (1..MaxActive of them); then at most MaxSets        *)
(* SetInput actions (any map, on the Vars the active operators read), at   *)
(* most MaxTog Observe/Unobserve actions and Stabilise whenever something  *)
(* happened since the last one.  `hist` (kept out of the fingerprint by    *)
(* VIEW) records the actions; every Stabilise entry carries the expected   *)
(* output and user-function call log of each observed operator.  One       *)
(* REPLAY line per maximal behaviour (all SetInputs used, stabilised).     *)
(* For a chained instance (chain_fm_map, chain_fm_fold) the expected       *)
(* output is the one of the second stage and the call log holds the calls  *)
(* of both stages (role "f" = first stage, "g" / "add" / "remove" = second *)
(* stage): three SetInputs suffice for  init; edit that the first stage    *)
(* announces although the intermediate map stays equal (second stage runs  *)
(* on an empty diff); real edit (second stage must still know its input).  *)
(* For the plain sums (fold_sum, fold_sum_upd) two SetInputs reach a        *)
(* non-empty map that folds to init, the third one is the edit after it.   *)
(***************************************************************************)
EXTENDS MapOps, Json

CONSTANTS MaxSets, MaxTog, MaxActive, Export,
          MergeFull   \* TRUE: incr_merge inputs range over all Maps; FALSE: over MergeMapsQuick

VARIABLES hist, nsets, ntog, active
mcvars == <<st, hist, nsets, ntog, active>>

UsedVars == UNION {ReadSet(o) : o \in active}

\* incr_merge has two inputs, i.e. the square of the input space: the quick family uses five
\* maps (empty, one key, two keys, unchanged-key / changed-key / inserted / removed
\* transitions between them, and the Both(0, 0) -> None case)
MergeMapsQuick == {EmptyMap, (1 :> 0), (1 :> 1) @@ (2 :> 0), (2 :> 1), (1 :> 0) @@ (2 :> 1)}
MapsFor(w) == IF w = "in" \/ MergeFull THEN Maps ELSE MergeMapsQuick \cap Maps

Expect(s) ==
  LET O == {o \in Ops : s.op[o].observed} IN
  [o \in O |-> [out |-> OutJson(o, s.op[o].out), calls |-> s.op[o].calls]]

MCInit == /\ st = InitState
          /\ hist = <<>>
          /\ nsets = 0
          /\ ntog = 0
          /\ active \in {A \in SUBSET Ops : Cardinality(A) \in 1..MaxActive}

MCSet == /\ nsets < MaxSets
         /\ \E w \in UsedVars : \E m \in MapsFor(w) :
               /\ st' = SetInputOp(st, w, m)
               /\ hist' = Append(hist, [a |-> "set", which |-> w, m |-> MapSeq(m)])
         /\ nsets' = nsets + 1
         /\ UNCHANGED <<ntog, active>>

MCObserve == /\ ntog < MaxTog
             /\ \E o \in active :
                  /\ ~st.op[o].observed
                  /\ st' = ObserveOp(st, o)
                  /\ hist' = Append(hist, [a |-> "observe", op |-> o])
             /\ ntog' = ntog + 1
             /\ UNCHANGED <<nsets, active>>

MCUnobserve == /\ ntog < MaxTog
               /\ \E o \in active :
                    /\ st.op[o].observed
                    /\ st' = UnobserveOp(st, o)
                    /\ hist' = Append(hist, [a |-> "unobserve", op |-> o])
               /\ ntog' = ntog + 1
               /\ UNCHANGED <<nsets, active>>

MCStabilise == /\ ~st.clean
               /\ st' = StabiliseOp(st)
               /\ hist' = Append(hist, [a |-> "stabilise", expect |-> Expect(st')])
               /\ UNCHANGED <<nsets, ntog, active>>
               \* behaviour export (see below)
               /\ (Export /\ nsets = MaxSets) => PrintT(<<"REPLAY", ToJson(hist')>>)

MCNext == MCSet \/ MCObserve \/ MCUnobserve \/ MCStabilise
MCSpec == MCInit /\ [][MCNext]_mcvars

\* The versions only matter through the comparisons "input version > version at last run":
\* the view keeps those booleans instead of the counters (a bisimulation quotient).
ViewOp(o) == [st.op[o] EXCEPT !.ranInputVersion =
                 [i \in DOMAIN Reads(o) |-> st.ver[Reads(o)[i]] > st.op[o].ranInputVersion[i]]]
View == <<st.inp, st.node, st.clean, [o \in active |-> ViewOp(o)], nsets, ntog, active>>

\* Behaviour export: one REPLAY line per maximal behaviour, i.e. per Stabilise transition
\* taken after the last SetInput.  It is printed from the action (not from an invariant on
\* the successor) because VIEW merges states with different histories: an invariant would
\* only see the first history that reaches a successor, the action sees the history of
\* every distinct predecessor.  The ghost fields (last.prevIn, calls) keep predecessors
\* with different previous inputs distinct, so every window <<m1, m2, m3>> of consecutive
\* inputs (with the observed/unobserved variations) ends up in some exported behaviour.

Alias == [inp |-> st.inp, node |-> st.node, ver |-> st.ver, clean |-> st.clean,
          ops |-> [o \in active |-> st.op[o]], active |-> active,
          histJson |-> ToJson(hist)]
=============================================================================
