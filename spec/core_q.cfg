SPECIFICATION Spec
CONSTANTS
  K = 2
  Debug = TRUE
  Fix = {"direct_guard"}
  Ctors = {"var", "map", "map2"}
  Fs1 = {"id", "inc", "const0"}
  Fs2 = {"add"}
  Cutoffs = {}
  RecipeKinds = {}
  Ops = {"set"}
  MaxVars = 1
  MaxNodes = 3
  MaxObs = 2
  MaxActs = 8
  MaxRounds = 2
  MaxH = 8
  Late = FALSE
  Export = FALSE
VIEW View
INVARIANT NoPanic
INVARIANT InvObsCorrect
INVARIANT InvInvalidity
INVARIANT InvAtMostOnce
INVARIANT InvFinalArgs
INVARIANT InvNoStaleRun
INVARIANT InvOnlyNeeded
INVARIANT InvAudit
INVARIANT InvExport
ALIAS Alias
CHECK_DEADLOCK FALSE
