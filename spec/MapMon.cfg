SPECIFICATION TraceSpec
CONSTANTS
  NK = 6
  NV = 4
  Ops = {"map", "filter_map", "mapi", "filter_mapi", "fold", "fold_rev", "fold_upd", "fold_upd_rev", "merge", "partition", "partition_mapi"}
VIEW TraceView
POSTCONDITION TraceAccepted
CHECK_DEADLOCK FALSE
