SPECIFICATION TraceSpec
CONSTANTS
  NK = 6
  NV = 4
  Ops = {"map", "filter_map", "mapi", "filter_mapi", "fold", "fold_rev", "fold_upd", "fold_upd_rev", "merge", "partition", "partition_mapi",
         "fold_sum", "fold_sum_upd", "chain_fm_map", "chain_fm_fold"}
VIEW TraceView
POSTCONDITION TraceAccepted
CHECK_DEADLOCK FALSE
