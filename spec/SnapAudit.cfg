SPECIFICATION Spec
CONSTANTS
  K = 2
  Debug = TRUE
  Fix = {}
POSTCONDITION Accepted
CHECK_DEADLOCK FALSE
