---------------------------- MODULE MC_SymDiff ----------------------------
(***************************************************************************)
(* Model-checking instance of SymDiff (C18).                               *)
(*  - diff machines (MergeOnce "mo", SymmetricDiff "sd",                   *)
(*    SymmetricDiffOwned "sdo"): every ordered pair of maps over keys      *)
(*    1..DKeys with values in DVals (or absent);                           *)
(*  - merge machine "ms" (MergeOnceWith over the two diff streams + the    *)
(*    fold of incr_merge): every (oldL, newL, oldR, newR) over keys        *)
(*    1..MKeys where one side takes values in MValsA and the other in      *)
(*    MValsB (or absent), in both orientations.  MValsA = MValsB gives     *)
(*    the full product; a smaller MValsB (presence patterns only) keeps    *)
(*    3 keys tractable: 27^4 cases take minutes, mostly for the export.    *)
(* Every enumerated case is exported once, from its initial state, with    *)
(* the expected result computed from the DEFINITIONS, as a line            *)
(*   <<"CASE", "<json>">>                                                  *)
(* for the conformance harness (harness/src/bin/symdiff.rs).               *)
(***************************************************************************)
EXTENDS SymDiff, TLC, Json

CONSTANTS DKeys, DVals, MKeys, MValsA, MValsB

ToMap(f, nk) == SelectSeq([k \in 1..nk |-> <<k, f[k]>>], LAMBDA p : p[2] # Absent)
MapsOver(nk, vals) == { ToMap(f, nk) : f \in [1..nk -> vals \cup {Absent}] }

DMaps == MapsOver(DKeys, DVals)
MMapsA == MapsOver(MKeys, MValsA)
MMapsB == MapsOver(MKeys, MValsB)

MCInit ==
  \/ \E kind \in {"mo", "sd", "sdo"} : \E m1, m2 \in DMaps : InitDiff(kind, m1, m2)
  \/ \E x, y \in MMapsA : \E u, v \in MMapsB : InitMerge(x, y, u, v) \/ InitMerge(u, v, x, y)

MCSpec == MCInit /\ [][Next]_vars

(* Export: one line per case, printed when the invariant is evaluated on    *)
(* the (distinct) initial state of the "sd" resp. "ms" machine.             *)
DiffCase == [kind |-> "diff", m1 |-> inp[1], m2 |-> inp[2], expect |-> DiffDef(inp[1], inp[2])]
MergeCase == [kind |-> "merge", oldl |-> inp[1], newl |-> inp[2], oldr |-> inp[3], newr |-> inp[4],
              expect |-> MergeDef(DiffDef(inp[1], inp[2]), DiffDef(inp[3], inp[4])),
              calls |-> CallsDef(inp[1], inp[2], inp[3], inp[4]),
              out |-> OutDef(inp[2], inp[4])]
InvExport ==
  /\ (n = 0 /\ mk = "sd") => PrintT(<<"CASE", ToJson(DiffCase)>>)
  /\ (n = 0 /\ mk = "ms") => PrintT(<<"CASE", ToJson(MergeCase)>>)
=============================================================================
