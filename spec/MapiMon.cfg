SPECIFICATION TraceSpec
CONSTANTS
  NK = 6
  NV = 4
  NW = 3
  Shapes = {"S1", "S2", "S3", "S4", "S5"}
  Filters = {FALSE, TRUE}
  Cuts = {"eq", "fn"}
  Defects = {}
VIEW TraceView
POSTCONDITION TraceAccepted
CHECK_DEADLOCK FALSE
