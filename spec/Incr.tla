------------------------------- MODULE Incr -------------------------------
(***************************************************************************)
(* Engine specification of incremental-rs (crate `incremental`).           *)
(*                                                                         *)
(* The whole engine is a set of pure operators over ONE state record `s`;  *)
(* every operator transcribes one Rust function (file:line in comments).   *)
(* TLA+ actions (module MC_* / IncrTrace) are thin wrappers                *)
(*     st' = Op(st, args)                                                  *)
(* with one action per user-function boundary, so that every state in      *)
(* which user code could observe the engine is a state of the spec.        *)
(*                                                                         *)
(* Node ids are creation indices (1-based) = registry positions of the     *)
(* verif hook.  Index values stored in `cip`/`pic`/edge cells are 0-based  *)
(* exactly as in the Rust code; TLA+ sequence positions are index+1.       *)
(***************************************************************************)
EXTENDS Integers, Sequences, FiniteSets, TLC

CONSTANTS K,        \* integer values are 0..K-1
          Debug,    \* BOOLEAN: debug_assert! enabled
          Fix       \* set of strings: repaired designs in effect (see DESIGN.md section 9)

---------------------------------------------------------------------------
(* Values: uniform triples <<tag, a, b>> so TLC can always compare them.   *)
I(x)    == <<"i", x, 0>>
P(a, b) == <<"p", a, b>>
NR(n)   == <<"n", n, 0>>
Unit    == <<"u", 0, 0>>
NoVal   == <<"none", 0, 0>>
Tag(v)  == v[1]

F1(f, x) ==
  CASE f = "id"     -> x
    [] f = "inc"    -> IF Tag(x) = "p" THEN P((x[2] + 1) % K, x[3]) ELSE I((x[2] + 1) % K)
    [] f = "const0" -> I(0)
    [] f = "min1"   -> I(IF x[2] > 0 THEN 1 ELSE 0)
    [] f = "fst"    -> I(x[2])
    [] f = "snd"    -> I(x[3])
    [] f = "swap"   -> P(x[3], x[2])
    [] f = "dup"    -> P(x[2], x[2])
    [] f = "pair0"  -> P(x[2], 0)
    [] f = "halfp"  -> P(IF x[2] > 0 THEN 1 ELSE 0, 0)

F2(f, x, y) ==
  CASE f = "add"  -> I((x[2] + y[2]) % K)
    [] f = "fst"  -> x
    [] f = "snd"  -> y
    [] f = "max"  -> I(IF x[2] >= y[2] THEN x[2] ELSE y[2])
    [] f = "pair" -> P(x[2], y[2])

(* Cutoffs (src/cutoff.rs:60-70).  c is a record [c |-> name, ...].         *)
(* "dep" is depend_on's preserve_cutoff (incr.rs:408-418): compares the     *)
(* changed_at stamps of input and output at the time of the call.           *)
ShouldCutoff(s, n, old, new) ==
  LET c == s.cutoff[n] IN
  CASE c.c = "eq"     -> old = new
    [] c.c = "never"  -> FALSE
    [] c.c = "always" -> TRUE
    [] c.c = "min1"   -> F1("min1", old) = F1("min1", new)
    [] c.c = "le"     -> new[2] <= old[2]
    [] c.c = "dep"    -> s.chgAt[c.in] = s.chgAt[n]
    [] c.c = "boom"   -> old = new      \* a user cutoff function that panics when shown BoomVal (C13)
CutoffLogged(c) == c.c \in {"min1", "le", "beq", "boom"}
\* crash points of user closures other than node functions (C13): the value that sets them off
BoomVal == <<"i", 1, 0>>
CutoffPanics(s, n, old, new) == old # <<"none", 0, 0>> /\ s.cutoff[n].c = "boom" /\ new = BoomVal

---------------------------------------------------------------------------
(* Generic helpers                                                          *)
Max(a, b) == IF a >= b THEN a ELSE b
Min(a, b) == IF a <= b THEN a ELSE b
SeqSet(q) == {q[i] : i \in 1..Len(q)}
IndexOf(q, x) == CHOOSE i \in 1..Len(q) : q[i] = x /\ \A j \in 1..(i-1) : q[j] # x
Has(q, x) == \E i \in 1..Len(q) : q[i] = x
\* Vec::swap_remove at 1-based position i
SwapRemove(q, i) == IF i = Len(q) THEN SubSeq(q, 1, Len(q) - 1)
                    ELSE [SubSeq(q, 1, Len(q) - 1) EXCEPT ![i] = q[Len(q)]]
\* set index ix0 (0-based) of an i32 vector, padding with -1 (`while len <= ix push -1`)
PadSet(q, ix0, v) ==
  LET padded == IF Len(q) > ix0 THEN q
                ELSE q \o [j \in 1..(ix0 + 1 - Len(q)) |-> -1]
  IN [padded EXCEPT ![ix0 + 1] = v]

\* panics are outcomes: once set, every operator is the identity
Ok(s) == s.panic = ""
Fail(s, class) == IF Ok(s) THEN [s EXCEPT !.panic = class] ELSE s
\* real assert!/unwrap/index guard
Guard(s, cond, class) == IF Ok(s) /\ ~cond THEN [s EXCEPT !.panic = class] ELSE s
\* debug_assert!
DGuard(s, cond, class) == IF Debug THEN Guard(s, cond, class) ELSE s

---------------------------------------------------------------------------
(* Structure                                                                *)
Kind(s, n) == s.def[n].k
IsMapLike(k) == k \in {"map", "map2", "fold", "mapref", "mwo"}

\* try_fold_children (node.rs:1492-1585): empty once invalid (kind() = None)
Children(s, n) ==
  IF ~s.valid[n] THEN <<>> ELSE
  LET d == s.def[n] IN
  CASE d.k \in {"var", "const"} -> <<>>
    [] d.k \in {"map", "mapref", "mwo", "lhs"} -> <<d.ins[1]>>
    [] d.k \in {"map2", "fold"} -> d.ins
    [] d.k = "main" -> IF s.rhs[d.lc] = 0 THEN <<d.lc>> ELSE <<d.lc, s.rhs[d.lc]>>
    [] d.k = "expert" -> [i \in 1..Len(s.edges[n]) |-> s.edges[n][i].child]

Alive(s, n) == n \notin s.rel

\* value_as_any (node.rs:369-378): map_ref stores nothing and reads through its input
RECURSIVE Value(_, _)
Value(s, n) ==
  IF s.valid[n] /\ s.def[n].k = "mapref"
  THEN LET x == Value(s, s.def[n].ins[1]) IN IF x = NoVal THEN NoVal ELSE F1(s.def[n].f, x)
  ELSE s.val[n]

\* is_necessary (node.rs:509-514)
Nec(s, n) == s.par[n] # <<>> \/ s.nobs[n] # {} \/ s.force[n]

StaleChild(s, n) == \E i \in 1..Len(Children(s, n)) : s.chgAt[Children(s, n)[i]] > s.recAt[n]
\* is_stale (node.rs:462-495)
Stale(s, n) ==
  IF ~s.valid[n] THEN FALSE ELSE
  LET k == Kind(s, n) IN
  CASE k = "var"    -> s.setAt[n] > s.recAt[n]
    [] k = "const"  -> s.recAt[n] = -1
    [] k = "expert" -> s.fstale[n] \/ s.recAt[n] = -1 \/ StaleChild(s, n)
    [] OTHER        -> s.recAt[n] = -1 \/ StaleChild(s, n)
NeedsCompute(s, n) == Nec(s, n) /\ Stale(s, n)
InHeap(s, n) == s.hHeap[n] >= 0

\* Scope (scope.rs:46-73).  scope = 0 is Top, otherwise the id of the lhs_change node.
\* The BindNode record is kept alive by lhs_change and main; upgrade().unwrap() fails if both died.
ScopeAlive(s, n) == s.scope[n] = 0 \/ Alive(s, s.scope[n]) \/ Alive(s, s.def[s.scope[n]].main)
ScopeHeight(s, n) == IF s.scope[n] = 0 THEN 0 ELSE s.height[s.scope[n]]
ScopeNecessary(s, n) ==
  IF s.scope[n] = 0 THEN TRUE
  ELSE LET m == s.def[s.scope[n]].main IN Alive(s, m) /\ Nec(s, m)
ScopeValid(s, n) ==
  IF s.scope[n] = 0 THEN TRUE
  ELSE LET m == s.def[s.scope[n]].main IN Alive(s, m) /\ s.valid[m]

---------------------------------------------------------------------------
(* Sparse queue maps: height -> FIFO sequence (only non-empty heights in DOMAIN) *)
QGet(q, h) == IF h \in DOMAIN q THEN q[h] ELSE <<>>
QSet(q, h, v) ==
  IF v = <<>> THEN [x \in (DOMAIN q) \ {h} |-> q[x]]
  ELSE [x \in (DOMAIN q) \cup {h} |-> IF x = h THEN v ELSE q[x]]
QEmpty == [x \in {} |-> <<>>]

(* Recompute heap (recompute_heap.rs)                                       *)
\* link (80-89)
RchLink(s, n) ==
  LET h == s.height[n]
      s1 == Guard(Guard(s, h >= 0, "assert:rch_link_neg"), h <= s.rchMax, "assert:rch_link_max")
  IN IF ~Ok(s1) THEN s1 ELSE
     [s1 EXCEPT !.hHeap[n] = h, !.rch = QSet(@, h, Append(QGet(@, h), n))]
\* unlink (91-105): VecDeque::swap_remove_back
RchUnlink(s, n) ==
  LET h == s.hHeap[n]
      q == QGet(s.rch, h)
  IN IF ~Has(q, n) THEN Fail(s, "panic:not_in_rch")
     ELSE [s EXCEPT !.rch = QSet(@, h, SwapRemove(q, IndexOf(q, n)))]
\* insert (107-119)
RchInsert(s, n) ==
  IF ~Ok(s) THEN s ELSE
  LET s1 == DGuard(DGuard(s, ~InHeap(s, n) /\ NeedsCompute(s, n), "dassert:rch_insert"),
                   s.height[n] <= s.rchMax, "dassert:rch_insert_max")
      s2 == IF s1.height[n] < s1.rchLower THEN [s1 EXCEPT !.rchLower = s1.height[n]] ELSE s1
      s3 == RchLink(s2, n)
  IN IF ~Ok(s3) THEN s3 ELSE [s3 EXCEPT !.rchLen = @ + 1]
\* remove (121-130)
RchRemove(s, n) ==
  IF ~Ok(s) THEN s ELSE
  LET s1 == DGuard(s, InHeap(s, n) /\ ~NeedsCompute(s, n), "dassert:rch_remove")
      s2 == IF Ok(s1) THEN RchUnlink(s1, n) ELSE s1
  IN IF ~Ok(s2) THEN s2 ELSE [s2 EXCEPT !.hHeap[n] = -1, !.rchLen = @ - 1]
\* raise_min_height (137-151) returns the new lower bound
RECURSIVE RchRaise(_, _)
RchRaise(s, lo) == IF lo <= s.rchMax /\ QGet(s.rch, lo) = <<>> THEN RchRaise(s, lo + 1) ELSE lo
RchMinHeightState(s) ==
  IF s.rchLen = 0 THEN [s EXCEPT !.rchLower = s.rchMax + 1]
  ELSE [s EXCEPT !.rchLower = RchRaise(s, s.rchLower)]
\* increase_height (153-159)
RchIncrease(s, n) ==
  IF ~Ok(s) THEN s ELSE
  LET s1 == DGuard(s, s.height[n] > s.hHeap[n] /\ InHeap(s, n) /\ s.height[n] <= s.rchMax,
                   "dassert:rch_increase")
      s2 == IF Ok(s1) THEN RchUnlink(s1, n) ELSE s1
  IN IF Ok(s2) THEN RchLink(s2, n) ELSE s2
\* true minimum height of the heap (or rchMax+1): what min_height() returns
RchMin(s) == IF s.rchLen = 0 \/ DOMAIN s.rch = {} THEN s.rchMax + 1
             ELSE CHOOSE h \in DOMAIN s.rch : \A g \in DOMAIN s.rch : h <= g

---------------------------------------------------------------------------
(* Handle-after-stabilisation stack (node.rs:946-960)                       *)
HandleAfter(s, n) ==
  IF s.inHas[n] THEN s ELSE [s EXCEPT !.inHas[n] = TRUE, !.has = Append(@, n)]
MaybeHandleAfter(s, n) == IF s.numH[n] > 0 THEN HandleAfter(s, n) ELSE s

(* AdjustHeightsHeap::set_height (adjust_heights_heap.rs:83-94)             *)
SetHeight(s, n, h) ==
  IF ~Ok(s) THEN s ELSE
  LET s1 == IF h > s.ahhSeen THEN [s EXCEPT !.ahhSeen = h] ELSE s
  IN IF h > s.ahhSeen /\ h > s.ahhMax THEN Fail(s1, "panic:height")
     ELSE [s1 EXCEPT !.height[n] = h]

---------------------------------------------------------------------------
(* Edges: parents / index arrays (node.rs:1782-1804, 1399-1465)             *)
\* add_parent: child gains `parent` as its last parent; ci0 = index of child in parent
AddParent(s, child, ci0, parent) ==
  LET pi0 == Len(s.par[child]) IN
  [s EXCEPT !.cip[child] = PadSet(@, pi0, ci0),
            !.pic[parent] = PadSet(@, ci0, pi0),
            !.par[child] = Append(@, parent)]

\* remove_parent
RemoveParent(s, child, ci0, parent) ==
  IF ~Ok(s) THEN s ELSE
  IF ci0 + 1 > Len(s.pic[parent]) THEN Fail(s, "panic:index") ELSE
  LET pi0 == s.pic[parent][ci0 + 1]
      np  == Len(s.par[child])
      s0  == DGuard(s, np >= 1 /\ pi0 >= 0 /\ pi0 < np /\ s.par[child][pi0 + 1] = parent,
                    "dassert:remove_parent")
  IN IF ~Ok(s0) THEN s0 ELSE
     IF pi0 < 0 \/ pi0 >= np THEN Fail(s0, "panic:index") ELSE
     LET s1 == [s0 EXCEPT !.pic[parent][ci0 + 1] = -1]
         last0 == np - 1
         s2 == IF pi0 < last0
               THEN LET endp == s1.par[child][last0 + 1]
                        eci0 == s1.cip[child][last0 + 1]
                    IN IF ~Alive(s1, endp) THEN s1     \* tracing::error!, skipped
                       ELSE IF eci0 < 0 \/ eci0 + 1 > Len(s1.pic[endp]) THEN Fail(s1, "panic:index")
                       ELSE [s1 EXCEPT !.pic[endp][eci0 + 1] = pi0,
                                       !.cip[child][pi0 + 1] = eci0]
               ELSE s1
     IN IF ~Ok(s2) THEN s2 ELSE
        [s2 EXCEPT !.cip[child][last0 + 1] = -1,
                   !.par[child] = SwapRemove(@, pi0 + 1)]

---------------------------------------------------------------------------
(* Adjust-heights heap (adjust_heights_heap.rs)                             *)
\* add_unless_mem (51-65)
AhhAdd(s, n) ==
  IF ~Ok(s) \/ s.hAhh[n] # -1 THEN s ELSE
  LET h == s.height[n]
      s1 == DGuard(DGuard(s, h >= s.ahhLower, "dassert:ahh_lower"), h <= s.ahhMax, "dassert:ahh_max")
  IN IF ~Ok(s1) THEN s1 ELSE
     IF h < 0 \/ h > s.ahhMax THEN Fail(s1, "panic:index") ELSE
     [s1 EXCEPT !.hAhh[n] = h, !.ahhLen = @ + 1, !.ahhQ = QSet(@, h, Append(QGet(@, h), n))]

\* ensure_height_requirement (95-121)
Ensure(s, oc, op, child, parent) ==
  IF ~Ok(s) THEN s ELSE
  LET s0 == DGuard(s, Nec(s, child) /\ Nec(s, parent), "dassert:ensure_necessary") IN
  IF ~Ok(s0) THEN s0 ELSE
  IF parent = oc THEN Fail(s0, "panic:cyclic") ELSE
  IF s0.height[child] >= s0.height[parent]
  THEN SetHeight(AhhAdd(s0, parent), parent, s0.height[child] + 1)
  ELSE s0

RECURSIVE EnsureList(_, _, _, _, _, _)
\* ensure for a list of candidate parents; `onlyNec` = skip unnecessary (created-on-rhs list)
EnsureList(s, oc, op, child, q, i) ==
  IF ~Ok(s) \/ i > Len(q) THEN s ELSE
  EnsureList(Ensure(s, oc, op, child, q[i]), oc, op, child, q, i + 1)

\* adjust_heights_bind_lhs_change (node.rs:908-926)
AhhBindLhs(s, oc, op, n) ==
  IF ~Ok(s) \/ ~s.valid[n] \/ Kind(s, n) # "lhs" THEN s ELSE
  LET all == s.created[n]
      dead == \E i \in 1..Len(all) : ~Alive(s, all[i])
  IN IF dead /\ "ahh_weak" \notin Fix THEN Fail(s, "panic:unwrap_weak_created")
     ELSE EnsureList(s, oc, op, n, SelectSeq(all, LAMBDA r : Alive(s, r) /\ Nec(s, r)), 1)

RECURSIVE AhhLoop(_, _, _)
\* the `while let Some(child) = self.remove_min()` loop (139-151)
AhhLoop(s, oc, op) ==
  IF ~Ok(s) \/ s.ahhLen = 0 \/ DOMAIN s.ahhQ = {} THEN s ELSE
  LET h == CHOOSE x \in DOMAIN s.ahhQ : \A y \in DOMAIN s.ahhQ : x <= y
      q == s.ahhQ[h]
      child == q[1]
      s1 == [s EXCEPT !.ahhLower = h, !.ahhQ = QSet(@, h, Tail(q)), !.hAhh[child] = -1,
                      !.ahhLen = @ - 1]
      s2 == IF InHeap(s1, child) THEN RchIncrease(s1, child) ELSE s1
      dead == \E i \in 1..Len(s2.par[child]) : ~Alive(s2, s2.par[child][i])
      s3 == IF dead THEN Fail(s2, "panic:unwrap_weak_parent")
            ELSE EnsureList(s2, oc, op, child, s2.par[child], 1)
      s4 == AhhBindLhs(s3, oc, op, child)
  IN AhhLoop(s4, oc, op)

\* adjust_heights (122-155)
AdjustHeights(s, oc, op) ==
  IF ~Ok(s) THEN s ELSE
  LET s0 == DGuard(DGuard(s, s.ahhLen = 0, "dassert:ahh_nonempty"),
                   s.height[oc] >= s.height[op], "dassert:ahh_order")
      s1 == IF Ok(s0) THEN [s0 EXCEPT !.ahhLower = s0.height[op]] ELSE s0
      s2 == Ensure(s1, oc, op, oc, op)
      s3 == AhhLoop(s2, oc, op)
  IN DGuard(DGuard(s3, s3.ahhLen = 0, "dassert:ahh_nonempty_end"),
            s3.height[oc] < s3.height[op], "dassert:ahh_result")

---------------------------------------------------------------------------
(* Expert edge callbacks (kind/expert.rs:204-228, 49-57)                    *)
\* on_change: runs the user's callback with the child's value (unwrap!)
EdgeOnChange(s, e, i) ==
  IF ~Ok(s) THEN s ELSE
  LET ed == s.edges[e][i] IN
  IF ed.cb = "none" THEN s ELSE
  IF Value(s, ed.child) = NoVal
  THEN (IF "edge_cb_parent" \in Fix THEN s ELSE Fail(s, "panic:unwrap_edge_value"))
  ELSE LET v == Value(s, ed.child)
           st0 == SelectSeq(s.xstore[e], LAMBDA r : r.edge # ed.id)
       IN [s EXCEPT !.cbLog = Append(@, [e |-> e, edge |-> ed.id, child |-> ed.child, v |-> v]),
                    !.xstore[e] = Append(st0, [edge |-> ed.id, v |-> v])]
\* run_edge_callback(child_index)
RunEdgeCallback(s, e, ci0) ==
  IF ~Ok(s) \/ s.fireAll[e] THEN s ELSE
  IF ci0 + 1 > Len(s.edges[e]) THEN s ELSE EdgeOnChange(s, e, ci0 + 1)

---------------------------------------------------------------------------
(* Necessity (node.rs:523-579, 1350-1397)                                   *)
RECURSIVE BecameNecessary(_, _)
RECURSIVE LinkChildren(_, _, _, _)
RECURSIVE PropagateInvalidity(_)
RECURSIVE InvalidateNode(_, _)
RECURSIVE InvalidateList(_, _, _)
RECURSIVE BecameUnnecessary(_, _)
RECURSIVE RemoveChildren(_, _, _, _)

CheckUnnecessary(s, n) == IF Ok(s) /\ ~Nec(s, n) THEN BecameUnnecessary(s, n) ELSE s

\* add_parent_without_adjusting_heights (1350-1370); returns the state
AddParentNoAdjust(s, child, ci0, parent) ==
  IF ~Ok(s) THEN s ELSE
  LET s0 == DGuard(s, Nec(s, parent), "dassert:parent_necessary")
      was == Nec(s0, child)
      s1 == AddParent(s0, child, ci0, parent)
      s2 == IF ~s1.valid[child] THEN [s1 EXCEPT !.pinv = Append(@, parent)] ELSE s1
      s3 == IF ~was THEN BecameNecessary(s2, child) ELSE s2
      \* node.rs:1367-1369: the check is on the CHILD's kind (defect 5; "edge_cb_parent" repairs it)
  IN IF ~Ok(s0) THEN s0 ELSE
     IF "edge_cb_parent" \in Fix
     THEN (IF Ok(s3) /\ s3.valid[parent] /\ Kind(s3, parent) = "expert"
           THEN RunEdgeCallback(s3, parent, ci0) ELSE s3)
     ELSE (IF Ok(s3) /\ s3.valid[child] /\ Kind(s3, child) = "expert"
           THEN RunEdgeCallback(s3, child, ci0) ELSE s3)

\* the foreach_child loop of became_necessary; h accumulates the new height
LinkChildren(s, n, i, h) ==
  IF ~Ok(s) THEN s ELSE
  LET ch == Children(s, n) IN
  IF i > Len(ch) THEN SetHeight(s, n, h) ELSE
  LET c == ch[i]
      s1 == AddParentNoAdjust(s, c, i - 1, n)
  IN IF ~Ok(s1) THEN s1
     ELSE LinkChildren(s1, n, i + 1, IF s1.height[c] >= h THEN s1.height[c] + 1 ELSE h)

\* observability_change (kind/expert.rs:190-203)
ObsChange(s, n, on) ==
  IF ~Ok(s) \/ ~s.valid[n] \/ Kind(s, n) # "expert" THEN s ELSE
  LET s1 == [s EXCEPT !.obsLog = Append(@, [n |-> n, on |-> on, round |-> s.round])] IN
  \* the user's on_observability_change callback; an armed one panics once (C13 crash point)
  IF on /\ n \in s.armed THEN Fail([s1 EXCEPT !.armed = @ \ {n}], "panic:user") ELSE
  IF on THEN s1 ELSE [s1 EXCEPT !.fireAll[n] = TRUE, !.ninv[n] = 0]

BecameNecessary(s, n) ==
  IF ~Ok(s) THEN s ELSE
  IF s.valid[n] /\ ~ScopeAlive(s, n) THEN Fail(s, "panic:unwrap_scope") ELSE
  IF s.valid[n] /\ ~ScopeNecessary(s, n) THEN Fail(s, "panic:bind_not_necessary") ELSE
  IF ~ScopeAlive(s, n) THEN Fail(s, "panic:unwrap_scope") ELSE
  LET s0 == IF "mapref_reset" \in Fix /\ s.valid[n] /\ Kind(s, n) = "mapref"
            THEN [s EXCEPT !.mrDid[n] = TRUE] ELSE s
      s1 == MaybeHandleAfter([s0 EXCEPT !.stats.becameNec = @ + 1], n)
      s2 == SetHeight(s1, n, ScopeHeight(s1, n) + 1)
      s3 == IF Ok(s2) THEN LinkChildren(s2, n, 1, s2.height[n]) ELSE s2
      s4 == DGuard(DGuard(s3, ~InHeap(s3, n), "dassert:bn_in_heap"), Nec(s3, n), "dassert:bn_nec")
      s5 == IF Ok(s4) /\ Stale(s4, n) THEN RchInsert(s4, n) ELSE s4
  IN ObsChange(s5, n, TRUE)

\* remove_children (1810-1815)
RemoveChildren(s, n, ch, i) ==
  IF ~Ok(s) \/ i > Len(ch) THEN s ELSE
  LET s1 == RemoveParent(s, ch[i], i - 1, n)
      s2 == CheckUnnecessary(s1, ch[i])
  IN RemoveChildren(s2, n, ch, i + 1)

BecameUnnecessary(s, n) ==
  IF ~Ok(s) THEN s ELSE
  LET s1 == MaybeHandleAfter([s EXCEPT !.stats.becameUnnec = @ + 1], n)
      s2 == SetHeight(s1, n, -1)
      s3 == RemoveChildren(s2, n, Children(s2, n), 1)
      s4 == ObsChange(s3, n, FALSE)
      s5 == DGuard(s4, ~NeedsCompute(s4, n), "dassert:bu_needs")
  IN IF Ok(s5) /\ InHeap(s5, n) THEN RchRemove(s5, n) ELSE s5

---------------------------------------------------------------------------
(* Invalidation (node.rs:856-906, 1588-1595; state.rs:399-436)              *)
InvalidateList(s, q, i) ==
  IF ~Ok(s) \/ i > Len(q) THEN s ELSE
  InvalidateList(IF Alive(s, q[i]) THEN InvalidateNode(s, q[i]) ELSE s, q, i + 1)

InvalidateNode(s, n) ==
  IF ~Ok(s) \/ ~s.valid[n] THEN s ELSE
  LET s1 == MaybeHandleAfter(s, n)
      s2 == [s1 EXCEPT !.val[n] = NoVal, !.chgAt[n] = s.num, !.recAt[n] = s.num,
                       !.stats.invalidated = @ + 1,
                       !.invLog = Append(@, n)]
      s3 == IF Nec(s2, n)
            \* (a branch of its own in the code: remembered in the coverage ghost so that histories
            \*  taking it are not deduplicated against histories that do not)
            THEN LET a == RemoveChildren([s2 EXCEPT !.cov = @ \cup {"invalidate:necessary"}], n, Children(s2, n), 1) IN
                 IF ~Ok(a) THEN a ELSE
                 IF ~ScopeAlive(a, n) THEN Fail(a, "panic:unwrap_scope")
                 ELSE SetHeight(a, n, ScopeHeight(a, n) + 1)
            ELSE s2
      \* BindMain: invalidate what the bind created (drain)
      s4 == IF Ok(s3) /\ Kind(s3, n) = "main"
            THEN LET lc == s3.def[n].lc
                     all == s3.created[lc]
                 IN InvalidateList([s3 EXCEPT !.created[lc] = <<>>], all, 1)
            ELSE s3
  IN IF ~Ok(s4) THEN s4 ELSE
     LET s5 == [s4 EXCEPT !.valid[n] = FALSE,
                          !.pinv = @ \o SelectSeq(s4.par[n], LAMBDA p : Alive(s4, p))]
         s6 == DGuard(s5, ~NeedsCompute(s5, n), "dassert:inv_needs")
     IN IF Ok(s6) /\ InHeap(s6, n) THEN RchRemove(s6, n) ELSE s6

\* should_be_invalidated (node.rs:382-409)
ShouldBeInvalidated(s, n) ==
  IF ~s.valid[n] THEN FALSE ELSE
  LET k == Kind(s, n) IN
  CASE k \in {"const", "var", "expert"} -> FALSE
    [] IsMapLike(k) -> \E i \in 1..Len(Children(s, n)) : ~s.valid[Children(s, n)[i]]
    [] k = "lhs"  -> ~s.valid[s.def[n].ins[1]]
    [] k = "main" -> ~s.valid[s.def[n].lc]

PropagateInvalidity(s) ==
  IF ~Ok(s) \/ s.pinv = <<>> THEN s ELSE
  LET n == s.pinv[Len(s.pinv)]                      \* Vec::pop
      s1 == [s EXCEPT !.pinv = SubSeq(@, 1, Len(@) - 1)]
  IN IF ~Alive(s1, n) \/ ~s1.valid[n] THEN PropagateInvalidity(s1) ELSE
     IF ShouldBeInvalidated(s1, n) THEN PropagateInvalidity(InvalidateNode(s1, n)) ELSE
     LET s2 == DGuard(s1, NeedsCompute(s1, n), "dassert:pinv_needs")
         \* propagate_invalidity_helper (410-424)
         s3 == IF ~Ok(s2) THEN s2
               ELSE IF Kind(s2, n) = "expert" THEN [s2 EXCEPT !.ninv[n] = @ + 1]
               ELSE DGuard(s2, Kind(s2, n) = "main", "dassert:pinv_no_children")
         s4 == IF Ok(s3) /\ ~InHeap(s3, n) THEN RchInsert(s3, n) ELSE s3
     IN PropagateInvalidity(s4)

\* state_add_parent (1372-1397)
StateAddParent(s, child, ci0, parent) ==
  IF ~Ok(s) THEN s ELSE
  LET s0 == DGuard(s, Nec(s, parent), "dassert:sap_necessary")
      s1 == AddParentNoAdjust(s0, child, ci0, parent)
      s2 == IF Ok(s1) /\ s1.height[child] >= s1.height[parent]
            THEN AdjustHeights(s1, child, parent) ELSE s1
      s3 == PropagateInvalidity(s2)
      s4 == DGuard(s3, Nec(s3, parent), "dassert:sap_necessary2")
  IN IF Ok(s4) /\ ~InHeap(s4, parent)
        /\ (s4.recAt[parent] = -1 \/ s4.chgAt[child] > s4.recAt[parent])
     THEN RchInsert(s4, parent) ELSE s4

---------------------------------------------------------------------------
(* Observers: reads (internal_observer.rs:182-205)                          *)
ObsRead(s, o) ==
  IF s.status = "stabilising" THEN <<"err", "CurrentlyStabilising">> ELSE
  CASE s.ostate[o] = "created" -> <<"err", "NeverStabilised">>
    [] s.ostate[o] = "inuse" ->
         LET v == Value(s, s.onode[o]) IN
         IF v = NoVal THEN <<"err", "ObservingInvalid">> ELSE <<"ok", v>>
    [] OTHER -> <<"err", "Disallowed">>

(* Var writes (var.rs:111-249)                                              *)
ApplyOp(op, old, x) ==
  CASE op \in {"set", "replace"} -> x
    [] op \in {"update", "modify", "replace_with"} -> F1("inc", old)
\* did_set_var_while_not_stabilising (224-249)
DidSetVar(s, v) ==
  IF ~Ok(s) THEN s ELSE
  IF v \in s.broken THEN Fail(s, "panic:abandoned_watch") ELSE
  LET s1 == [s EXCEPT !.stats.varSets = @ + 1] IN
  IF s1.setAt[v] < s1.num
  THEN LET s2 == [s1 EXCEPT !.setAt[v] = s1.num]
           s3 == DGuard(s2, Stale(s2, v), "dassert:var_stale")
       IN IF Ok(s3) /\ Nec(s3, v) /\ ~InHeap(s3, v) THEN RchInsert(s3, v) ELSE s3
  ELSE s1
\* returns the state; the value returned to the caller (replace*) is appended to retLog
VarWrite(s, v, op, x) ==
  IF ~Ok(s) THEN s ELSE
  IF s.status # "stabilising"
  THEN LET old == s.cell[v]
           s1 == [s EXCEPT !.cell[v] = ApplyOp(op, old, x),
                           !.retLog = IF op \in {"replace", "replace_with"}
                                      THEN Append(@, [v |-> v, r |-> old]) ELSE @]
       IN DidSetVar(s1, v)
  ELSE LET had == s.pend[v] # NoVal
           old == IF had THEN s.pend[v] ELSE s.cell[v]
           s1 == IF had THEN s ELSE [s EXCEPT !.setDuring = Append(@, v)]
       IN [s1 EXCEPT !.pend[v] = ApplyOp(op, old, x),
                     !.retLog = IF op \in {"replace", "replace_with"}
                                THEN Append(@, [v |-> v, r |-> old]) ELSE @]

(* Observer lifecycle (internal_observer.rs:74-141, 206-231; public.rs:95-121) *)
\* ghost: which of the "nothing to do" branches of the lifecycle calls a behaviour has exercised.  They
\* leave the state (almost) unchanged, so without this the model checker would only ever keep ONE of
\* several histories that differ in exactly those calls (MC.tla keeps `cov` in its VIEW).
Cov(s, tag) == [s EXCEPT !.cov = @ \cup {tag}]
\* ghost: nodes one of whose observers had a lifecycle call since the last stabilise finished (C10:
\* such calls must not affect the OTHER observers / subscriptions of that node)
Touch(s, o) == [s EXCEPT !.obsTouched = @ \cup {s.onode[o]}]
DisallowObs(s0, o) ==
  LET s == Touch(s0, o) IN
  CASE s.ostate[o] = "created" ->
         [s EXCEPT !.stats.activeObs = @ - 1, !.ostate[o] = "unlinked", !.osubs[o] = <<>>]
    [] s.ostate[o] = "inuse" ->
         [s EXCEPT !.stats.activeObs = @ - 1, !.ostate[o] = "disallowed",
                   !.disObs = Append(@, o)]
    [] OTHER -> Cov(s, "disallow:dead")
\* try_subscribe; result appended to retLog as [o, r]
Subscribe(s0, o, eff) ==
  LET s == Touch(s0, o) IN
  IF ~Ok(s) THEN s ELSE
  IF s.ostate[o] \in {"disallowed", "unlinked"}
  THEN Cov([s EXCEPT !.retLog = Append(@, [o |-> o, r |-> <<"err", "Disallowed">>])], "subscribe:dead") ELSE
  IF s.busyObs = o THEN Fail(s, "panic:borrow_handlers") ELSE
  LET tok == s.onext[o]
      h == [tok |-> tok, prev |-> "never", at |-> s.num, eff |-> eff]
      s1 == [s EXCEPT !.onext[o] = tok + 1, !.osubs[o] = Append(@, h),
                      !.retLog = Append(@, [o |-> o, r |-> <<"ok", tok>>])]
      n == s.onode[o]
      s2 == IF s1.ostate[o] = "inuse" THEN [s1 EXCEPT !.numH[n] = @ + 1] ELSE s1
  IN HandleAfter(s2, n)
\* Observer::unsubscribe(token) where the token was issued by observer `to`
Unsubscribe(s0, o, to, tok) ==
  LET s == Touch(Touch(s0, o), to) IN
  IF ~Ok(s) THEN s ELSE
  IF to # o THEN Cov([s EXCEPT !.retLog = Append(@, [o |-> o, r |-> <<"err", "Mismatch">>])], "unsub:mismatch") ELSE
  IF s.ostate[o] \in {"disallowed", "unlinked"}
  THEN Cov([s EXCEPT !.retLog = Append(@, [o |-> o, r |-> <<"ok", 0>>])], "unsub:dead") ELSE
  IF s.busyObs = o THEN Fail(s, "panic:borrow_handlers") ELSE
  LET existed == \E i \in 1..Len(s.osubs[o]) : s.osubs[o][i].tok = tok
      s1 == Cov([s EXCEPT !.osubs[o] = SelectSeq(@, LAMBDA h : h.tok # tok),
                          !.retLog = Append(@, [o |-> o, r |-> <<"ok", 0>>])],
                IF s.ostate[o] = "created" THEN "unsub:created"
                ELSE IF existed THEN "unsub:inuse" ELSE "unsub:inuse:gone")
      n == s.onode[o]
  IN IF s1.ostate[o] # "inuse" THEN s1
     ELSE IF "unsub_decr" \in Fix
          THEN (IF existed THEN [s1 EXCEPT !.numH[n] = @ - 1] ELSE s1)
          ELSE [s1 EXCEPT !.numH[n] = @ + 1]     \* internal_observer.rs:131-135 (defect)
\* State::unsubscribe (state.rs:438-443)
\* returns (): nothing is reported to the caller
StateUnsubscribe(s, to, tok) ==
  IF to \in s.allObs
  THEN LET r == Unsubscribe(s, to, to, tok) IN IF Ok(r) THEN [r EXCEPT !.retLog = s.retLog] ELSE r
  ELSE s

---------------------------------------------------------------------------
(* Node creation (node.rs:1597-1653; scope.rs:74-83)                        *)
DefaultCutoff(d) == IF d.k = "lhs" THEN [c |-> "never"] ELSE [c |-> "eq"]
NewNode(s, d, scope) ==
  IF ~Ok(s) THEN s ELSE
  LET n == s.n + 1
      s1 == [s EXCEPT !.n = n,
              !.def = Append(@, d), !.valid = Append(@, TRUE), !.val = Append(@, NoVal),
              !.recAt = Append(@, -1), !.chgAt = Append(@, -1), !.height = Append(@, -1),
              !.hHeap = Append(@, -1), !.hAhh = Append(@, -1), !.par = Append(@, <<>>),
              !.cip = Append(@, <<-1>>), !.pic = Append(@, <<>>), !.scope = Append(@, scope),
              !.cutoff = Append(@, DefaultCutoff(d)), !.force = Append(@, FALSE),
              !.nobs = Append(@, {}), !.numH = Append(@, 0), !.inHas = Append(@, FALSE),
              !.nsubs = Append(@, <<>>),
              !.mrDid = Append(@, TRUE), !.rhs = Append(@, 0), !.created = Append(@, <<>>),
              !.gen = Append(@, 0), !.born = Append(@, IF scope = 0 THEN 0 ELSE s.gen[scope]),
              !.edges = Append(@, <<>>), !.fstale = Append(@, FALSE), !.ninv = Append(@, 0),
              !.fireAll = Append(@, TRUE),
              !.xprev = Append(@, 0), !.xstore = Append(@, <<>>), !.xdeps = Append(@, <<>>), !.xcell = Append(@, NoVal),
              !.setAt = Append(@, IF d.k = "var" THEN s.num ELSE -1),
              !.cell = Append(@, IF d.k = "var" THEN d.init ELSE NoVal),
              !.pend = Append(@, NoVal), !.runs = Append(@, 0),
              !.lastRan = Append(@, 0), !.lastChg = Append(@, 0),
              !.stats.created = @ + 1]
  IN IF scope = 0 THEN s1
     ELSE IF ~(Alive(s1, scope) \/ Alive(s1, s1.def[scope].main)) THEN Fail(s1, "panic:unwrap_scope")
     ELSE [s1 EXCEPT !.created[scope] = Append(@, n)]

\* Incr::bind (incr.rs:244-295): lhs_change then main, both in the current scope
NewBind(s, lhs, recipe, scope) ==
  LET lc == s.n + 1
      s1 == NewNode(s, [k |-> "lhs", ins |-> <<lhs>>, recipe |-> recipe, main |-> lc + 1], scope)
  IN NewNode(s1, [k |-> "main", lc |-> lc, ins |-> <<lc>>], scope)

(* Bind recipes: what the user's closure does, as data.  Returns [s, node]. *)
RECURSIVE RunRecipe(_, _, _, _)
RunRecipe(s, b, rc, v) ==
  IF ~Ok(s) THEN [s |-> s, node |-> 0] ELSE
  CASE rc.r = "pick"  -> [s |-> s, node |-> rc.alts[v[2] + 1]]
    [] rc.r = "ref"   -> [s |-> s, node |-> v[2]]
    [] rc.r = "foreign" ->  \* a node of another state: assert!(weak_thin_ptr_eq(..)) (node.rs:710)
         [s |-> Fail(s, "panic:assert_foreign"), node |-> 0]
    [] rc.r = "const" -> LET s1 == NewNode(s, [k |-> "const", init |-> v], b)
                         IN [s |-> s1, node |-> s1.n]
    [] rc.r = "map"   -> LET s1 == NewNode(s, [k |-> "map", f |-> rc.f, cap |-> v,
                                               ins |-> <<rc.over>>, eff |-> <<>>], b)
                         IN [s |-> s1, node |-> s1.n]
    [] rc.r = "chain" ->   \* rc.len >= 1 id-maps over rc.over, first one captures v
         LET RECURSIVE Build(_, _, _)
             Build(t, prev, i) ==
               IF i > rc.len THEN [s |-> t, node |-> prev] ELSE
               LET t1 == NewNode(t, [k |-> "map", f |-> IF i = 1 THEN rc.f ELSE "id",
                                     cap |-> IF i = 1 THEN v ELSE NoVal,
                                     ins |-> <<prev>>, eff |-> <<>>], b)
               IN Build(t1, t1.n, i + 1)
         IN Build(s, rc.over, 1)
    [] rc.r = "alt"   -> RunRecipe(s, b, rc.alts[v[2] + 1], v)
    [] rc.r = "bind"  -> LET s1 == NewBind(s, rc.over, rc.inner, b)
                         IN [s |-> s1, node |-> s1.n]
    [] rc.r = "junk"  ->   \* create a node, drop it, then do rc.then
         LET j == RunRecipe(s, b, rc.pre, v)
             \* the only handle is dropped at once: the Rc dies, weak references dangle
             s1 == [j.s EXCEPT !.junk = @ \cup {j.node}, !.rel = @ \cup {j.node}]
         IN RunRecipe(s1, b, rc.then, v)
    [] rc.r = "memo"  ->   \* call the memoised function rc.m with key v (public.rs:342-378)
         LET mm == s.memos[rc.m]
             hit == \E i \in 1..Len(mm.table) : mm.table[i].key = v /\ Alive(s, mm.table[i].node)
         IN IF hit THEN [s |-> s, node |-> mm.table[CHOOSE i \in 1..Len(mm.table) :
                                                     mm.table[i].key = v /\ Alive(s, mm.table[i].node)].node]
            ELSE \* within_scope(creation_scope): panics if that scope is invalid
                 IF mm.scope # 0 /\ ~(Alive(s, s.def[mm.scope].main) /\ s.valid[s.def[mm.scope].main])
                 THEN [s |-> Fail(s, "panic:invalid_scope"), node |-> 0] ELSE
                 LET s0 == [s EXCEPT !.memoLog = Append(@, [m |-> rc.m, key |-> v]), !.curScope = mm.scope]
                     s1 == IF mm.f = "const"
                           THEN NewNode(s0, [k |-> "const", init |-> v], mm.scope)
                           ELSE NewNode(s0, [k |-> "map", f |-> mm.f, cap |-> v, ins |-> <<mm.over>>,
                                             eff |-> <<>>], mm.scope)
                     tb == SelectSeq(mm.table, LAMBDA r : r.key # v)
                 IN IF ~Ok(s1) THEN [s |-> s1, node |-> 0] ELSE
                    [s |-> [s1 EXCEPT !.memos[rc.m].table = Append(tb, [key |-> v, node |-> s1.n]),
                                      !.curScope = s.curScope],
                     node |-> s1.n]
    [] rc.r = "boom"  ->   \* the bind closure panics when its input is BoomVal (C13)
         IF v = BoomVal THEN [s |-> Fail(s, "panic:user"), node |-> 0] ELSE RunRecipe(s, b, rc.then, v)
    [] rc.r = "leak"  ->   \* hand the node built by rc.then to the harness
         LET j == RunRecipe(s, b, rc.then, v)
         IN [s |-> [j.s EXCEPT !.leaked = Append(@, j.node)], node |-> j.node]

---------------------------------------------------------------------------
(* Side effects of user functions (data attached to definitions)            *)
RECURSIVE RunEffects(_, _, _, _)
RunEffects(s, eff, i, ctx) ==
  IF ~Ok(s) \/ i > Len(eff) THEN s ELSE
  LET e == eff[i]
      s1 == CASE e.e = "set"  -> IF e.v \in s.vhandles THEN VarWrite(s, e.v, e.op, e.x) ELSE s
              [] e.e = "read" ->     \* the closure reads through a handle it can still get hold of
                   IF e.o <= s.no /\ s.oclones[e.o] > 0
                   THEN [s EXCEPT !.readLog = Append(@, [o |-> e.o, r |-> ObsRead(s, e.o)])] ELSE s
              [] e.e = "sub"  -> IF s.oclones[e.o] > 0 THEN Subscribe(s, e.o, <<>>) ELSE s
              [] e.e = "unsub" -> Unsubscribe(s, e.o, e.o, e.t)
              [] e.e = "disallow" -> DisallowObs(s, e.o)
              [] e.e = "obs_drop" ->    \* the closure owned the handle and drops it (public.rs:155-174)
                   LET s0 == [s EXCEPT !.oclones[e.o] = IF @ > 0 THEN @ - 1 ELSE 0] IN
                   IF s.oclones[e.o] > 0 /\ s0.oclones[e.o] = 0 THEN DisallowObs(s0, e.o) ELSE s0
              [] e.e = "drop_var" ->    \* the closure owned the last Var handle and drops it
                   IF e.v \in s.vhandles
                   THEN [s EXCEPT !.vhandles = @ \ {e.v}, !.handles = @ \ {e.v}, !.deadVars = Append(@, e.v)]
                   ELSE s
              [] e.e = "stabilise" -> Fail(s, "panic:status")   \* assert_eq!(status, NotStabilising)
              [] e.e = "panic" -> IF ctx = 0 \/ s.runs[ctx] = e.at THEN Fail(s, "panic:user") ELSE s
  IN RunEffects(s1, eff, i + 1, ctx)

\* ghost: record a user-function invocation
LogInv(s, n, args) ==
  [s EXCEPT !.inv = Append(@, [n |-> n, args |-> args, born |-> s.born[n]]),
            !.runs[n] = @ + 1]
ApplyMap(d, x) == IF d.cap = NoVal THEN F1(d.f, x) ELSE F2(d.f, d.cap, x)

---------------------------------------------------------------------------
(* Value change and scheduling of parents (node.rs:1662-1769, 783-846, 1268-1304) *)
RECURSIVE ChildChanged(_, _, _, _, _)
\* child_changed(parent p, child c, ci0, old); old = NoVal means None
ChildChanged(s, p, c, ci0, old) ==
  IF ~Ok(s) THEN s ELSE
  IF ~s.valid[p] THEN Fail(s, "panic:unwrap_parent_invalidated") ELSE
  CASE Kind(s, p) = "expert" -> RunEdgeCallback(s, p, ci0)
    [] Kind(s, p) = "mapref" ->
         LET f == s.def[p].f
             selfOld == IF old = NoVal THEN NoVal ELSE F1(f, old)
             cnew == Value(s, c)
         IN IF cnew = NoVal THEN Fail(s, "panic:unwrap_child_no_value") ELSE
            LET selfNew == F1(f, cnew)
                did == selfOld = NoVal \/ ~ShouldCutoff(s, p, selfOld, selfNew)
                s1 == [s EXCEPT !.mrDid[p] = did,
                                !.cutLog = IF selfOld # NoVal /\ CutoffLogged(s.cutoff[p])
                                           THEN Append(@, [n |-> p, old |-> selfOld, new |-> selfNew])
                                           ELSE @]
                RECURSIVE Up(_, _)
                Up(t, i) == IF ~Ok(t) \/ i > Len(t.par[p]) THEN t ELSE
                            IF ~Alive(t, t.par[p][i]) THEN Up(t, i + 1)
                            ELSE Up(ChildChanged(t, t.par[p][i], p, t.cip[p][i], selfOld), i + 1)
            IN IF CutoffPanics(s, p, selfOld, selfNew) THEN Fail(s1, "panic:user") ELSE Up(s1, 1)
    [] OTHER -> s

\* parent_iter_can_recompute_now: returns [s, now].
\* With "direct_guard" (the repaired design) the height test is followed by
\* `recompute_heap.min_height() > limit`, which also raises the heap's lower bound.
CanRecomputeNow(s, p, c) ==
  IF ~s.valid[p] THEN [s |-> s, now |-> FALSE] ELSE
  LET k == Kind(s, p) IN
  IF k \in {"const", "var"} THEN [s |-> Fail(s, "panic:not_a_parent"), now |-> FALSE] ELSE
  IF k \in {"lhs", "mapref", "mwo", "map"} /\ ~ScopeAlive(s, p)
  THEN [s |-> Fail(s, "panic:unwrap_scope"), now |-> FALSE] ELSE
  LET single == k \in {"lhs", "mapref", "mwo", "map", "main"}
      limit == IF k = "main" THEN s.height[s.def[p].lc] ELSE ScopeHeight(s, p)
      first == single /\ s.height[c] > limit
      sA == IF first /\ "direct_guard" \in Fix THEN RchMinHeightState(s) ELSE s
      can == first /\ ("direct_guard" \in Fix => sA.rchLower > limit)
  IN IF can THEN [s |-> sA, now |-> TRUE] ELSE
     LET sB == RchMinHeightState(sA) IN
     IF sB.height[p] <= sB.rchLower THEN [s |-> sB, now |-> TRUE]
     ELSE LET s1 == DGuard(DGuard(sB, NeedsCompute(sB, p), "dassert:crn_needs"),
                           ~InHeap(sB, p), "dassert:crn_in_heap")
          IN [s |-> RchInsert(s1, p), now |-> FALSE]

\* maybe_change_value_manual: sets s.chain to the parent to recompute directly (0 = none)
RECURSIVE QueueParents(_, _, _, _, _)
QueueParents(s, n, i, old, runCC) ==
  IF ~Ok(s) \/ i > Len(s.par[n]) THEN s ELSE
  LET p == s.par[n][i] IN
  IF ~Alive(s, p) THEN [s EXCEPT !.earlyReturn = TRUE] ELSE
  LET s1 == IF runCC THEN ChildChanged(s, p, n, s.cip[n][i], old) ELSE s
      s2 == DGuard(s1, NeedsCompute(s1, p), "dassert:parent_needs_to_be_computed")
      s3 == IF Ok(s2) /\ ~InHeap(s2, p) THEN RchInsert(s2, p) ELSE s2
  IN QueueParents(s3, n, i + 1, old, runCC)

ChangeValueManual(s, n, old, did, runCC) ==
  IF ~Ok(s) THEN s ELSE
  LET s0 == [s EXCEPT !.chain = 0,
                      !.lastChg[n] = IF did THEN s.round ELSE @] IN
  IF ~did THEN s0 ELSE
  LET s1 == MaybeHandleAfter([s0 EXCEPT !.chgAt[n] = s.num, !.stats.changed = @ + 1], n)
      s2 == QueueParents([s1 EXCEPT !.earlyReturn = FALSE], n, 2, old, runCC)
  IN IF ~Ok(s2) \/ s2.earlyReturn \/ s2.par[n] = <<>> THEN s2 ELSE
     LET p == s2.par[n][1] IN
     IF ~Alive(s2, p) THEN s2 ELSE
     LET s3 == IF runCC THEN ChildChanged(s2, p, n, s2.cip[n][1], old) ELSE s2
         s4 == DGuard(s3, NeedsCompute(s3, p), "dassert:parent_needs_to_be_computed")
     IN IF ~Ok(s4) \/ InHeap(s4, p) THEN s4 ELSE
        LET r == CanRecomputeNow(s4, p, n) IN
        IF Ok(r.s) /\ r.now THEN [r.s EXCEPT !.chain = p, !.chainFrom = n] ELSE r.s

\* maybe_change_value (1662-1679)
ChangeValue(s, n, new) ==
  IF ~Ok(s) THEN s ELSE
  LET old == s.val[n]
      cut == old # NoVal /\ ShouldCutoff(s, n, old, new)
      s1 == [s EXCEPT !.val[n] = new,
                      !.cutLog = IF old # NoVal /\ CutoffLogged(s.cutoff[n])
                                 THEN Append(@, [n |-> n, old |-> old, new |-> new]) ELSE @]
  IN IF CutoffPanics(s, n, old, new)
     THEN \* maybe_change_value took the old value out before consulting the cutoff (node.rs:1763)
          Fail([s1 EXCEPT !.val[n] = NoVal], "panic:user")
     ELSE ChangeValueManual(s1, n, old, ~cut, TRUE)

---------------------------------------------------------------------------
(* C12: ownership.  Strong references implied by a state; Retained = reachable from the roots  *)
(* (Rc semantics; the only cycle, var node <-> Var, is a root until break_rc_cycle).           *)
ValRefs(v) == IF Tag(v) = "n" THEN {v[2]} ELSE {}
\* nodes a bind closure names: it owns clones of their handles
RECURSIVE RecipeRefs(_)
RecipeRefs(rc) ==
  CASE rc.r = "pick" -> SeqSet(rc.alts)
    [] rc.r \in {"map", "chain"} -> {rc.over}
    [] rc.r = "alt" -> UNION {RecipeRefs(rc.alts[i]) : i \in 1..Len(rc.alts)}
    [] rc.r = "bind" -> {rc.over} \cup RecipeRefs(rc.inner)
    [] rc.r = "junk" -> RecipeRefs(rc.pre) \cup RecipeRefs(rc.then)
    [] rc.r \in {"leak", "boom"} -> RecipeRefs(rc.then)
    [] OTHER -> {}
StrongOut(s, n) ==
  LET d == s.def[n]
      kids == CASE d.k \in {"var", "const"} -> {}
                [] d.k = "lhs" -> {d.ins[1]} \cup (IF s.rhs[n] = 0 THEN {} ELSE {s.rhs[n]}) \cup RecipeRefs(d.recipe)
                [] d.k = "main" -> {d.lc, s.def[d.lc].ins[1]} \cup (IF s.rhs[d.lc] = 0 THEN {} ELSE {s.rhs[d.lc]})
                                   \cup RecipeRefs(s.def[d.lc].recipe)
                [] d.k = "expert" -> {s.edges[n][i].child : i \in 1..Len(s.edges[n])}
                [] OTHER -> SeqSet(d.ins)
      ctlrefs == IF d.k = "map" /\ "ctl" \in DOMAIN d /\ d.ctl.mode = "sum" THEN SeqSet(d.ctl.ins) ELSE {}
  IN kids \cup ctlrefs \cup ValRefs(s.val[n]) \cup ValRefs(s.cell[n]) \cup ValRefs(s.pend[n])
           \cup (IF d.k = "const" THEN ValRefs(d.init) ELSE {})
Roots(s) ==
  s.handles
  \cup {n \in 1..s.n : s.def[n].k = "var" /\ n \notin s.broken}
  \cup {s.onode[o] : o \in {x \in 1..s.no : s.oclones[x] > 0 \/ x \in s.allObs}}
  \cup {n \in 1..s.n : InHeap(s, n)}
  \cup SeqSet(s.leaked)
  \cup {s.memos[i].over : i \in {j \in 1..Len(s.memos) : s.memos[j].over # 0}}
RECURSIVE Reach(_, _, _)
Reach(s, todo, acc) ==
  IF todo = {} THEN acc ELSE
  LET n == CHOOSE x \in todo : TRUE
      new == StrongOut(s, n) \ (acc \cup {n})
  IN Reach(s, (todo \ {n}) \cup new, acc \cup {n})
Retained(s) == Reach(s, Roots(s), {})
Released(s) == (1..s.n) \ Retained(s)

---------------------------------------------------------------------------
(* Recompute one node (node.rs:603-779)                                     *)
\* change_child_bind_rhs (1306-1347); old = 0 means None
ChangeChildBindRhs(s, main, old, new) ==
  IF ~Ok(s) \/ ~s.valid[main] THEN s ELSE
  IF old = 0 THEN StateAddParent(s, new, 1, main) ELSE
  IF old = new THEN s ELSE
  LET s1 == RemoveParent(s, old, 1, main)
      s2 == IF Ok(s1) THEN [s1 EXCEPT !.force[old] = TRUE] ELSE s1
      s3 == StateAddParent(s2, new, 1, main)
      s4 == IF Ok(s3) THEN [s3 EXCEPT !.force[old] = FALSE] ELSE s3
  IN CheckUnnecessary(s4, old)

FoldValue(d, vals) ==
  LET RECURSIVE Go(_, _)
      Go(acc, i) == IF i > Len(vals) THEN acc ELSE Go(F2(d.f, acc, vals[i]), i + 1)
  IN Go(d.init, 1)

RecomputeLhs(s, n) ==
  LET d == s.def[n]
      oldCreated == s.created[n]
      x == Value(s, d.ins[1])
  IN IF x = NoVal THEN Fail(s, "panic:unwrap_value") ELSE
     LET s1 == LogInv([s EXCEPT !.created[n] = <<>>, !.gen[n] = @ + 1, !.curScope = n], n, <<x>>)
         r == RunRecipe(s1, n, d.recipe, x)
         s2 == IF Ok(r.s) THEN [r.s EXCEPT !.curScope = s.curScope] ELSE r.s
     IN IF ~Ok(s2) THEN s2 ELSE
        LET old == s2.rhs[n]
            new == r.node
            s3 == [s2 EXCEPT !.rhs[n] = new, !.chgAt[n] = s2.num,
                             !.rhsLog = Append(@, [b |-> n, rhs |-> new])]
            s4 == IF Alive(s3, d.main) THEN ChangeChildBindRhs(s3, d.main, old, new) ELSE s3
            s5 == IF old # 0 THEN PropagateInvalidity(InvalidateList(s4, oldCreated, 1)) ELSE s4
            s6 == DGuard(s5, s5.valid[n], "dassert:lhs_valid")
            \* `old_rhs` is dropped here: what only it kept alive is freed at once (weak references to it,
            \* e.g. in memo tables and created-on-rhs lists, dangle from now on)
            s7 == IF Ok(s6) /\ old # 0 THEN [s6 EXCEPT !.rel = @ \cup (Released(s6) \ {n, s6.chain})] ELSE s6
        IN ChangeValue(s7, n, Unit)

RecomputeMain(s, n) ==
  LET r == s.rhs[s.def[n].lc] IN
  IF r = 0 THEN Fail(s, "panic:unwrap_rhs") ELSE
  IF s.valid[r]
  THEN LET v == Value(s, r) IN
       IF v = NoVal THEN [s EXCEPT !.chain = 0] ELSE ChangeValue(s, n, v)
  ELSE [PropagateInvalidity(InvalidateNode(s, n)) EXCEPT !.chain = 0]

(* Expert nodes (node.rs:1133-1266; kind/expert.rs; state/expert.rs)        *)
RunningIsChild(s, e) == s.running # 0 /\ Has(Children(s, e), s.running)

\* expert_make_stale
ExpertMakeStale(s, e) ==
  IF ~Ok(s) \/ ~s.valid[e] THEN s ELSE
  LET s0 == DGuard(s, RunningIsChild(s, e), "dassert:make_stale_not_child") IN
  IF ~Ok(s0) \/ s0.fstale[e] THEN s0 ELSE
  LET s1 == [s0 EXCEPT !.fstale[e] = TRUE] IN
  IF Nec(s1, e) /\ ~InHeap(s1, e) THEN RchInsert(s1, e) ELSE s1

\* expert_add_dependency; the new edge gets id s.ne + 1
ExpertAddDep(s, e, child, cb) ==
  IF ~Ok(s) \/ ~s.valid[e] THEN s ELSE
  LET ix0 == Len(s.edges[e])
      ed == [id |-> s.ne + 1, child |-> child, cb |-> cb, ix |-> ix0]
      s1 == [s EXCEPT !.ne = @ + 1, !.edges[e] = Append(@, ed), !.fstale[e] = TRUE]
  IN IF ~Nec(s1, e) THEN s1 ELSE
     LET s2 == StateAddParent(s1, child, ix0, e)
         s3 == DGuard(s2, NeedsCompute(s2, e), "dassert:add_dep_needs")
     IN IF Ok(s3) /\ ~InHeap(s3, e) THEN RchInsert(s3, e) ELSE s3

\* expert_swap_children_except_in_kind (1232-1260)
SwapChildrenExceptInKind(s, e, c1, i1, c2, i2) ==
  IF ~Ok(s) THEN s ELSE
  IF c1 = c2 /\ "swap_same_child" \notin Fix THEN Fail(s, "panic:already_borrowed") ELSE
  IF i1 + 1 > Len(s.pic[e]) \/ i2 + 1 > Len(s.pic[e]) THEN Fail(s, "panic:index") ELSE
  LET p1 == s.pic[e][i1 + 1]
      p2 == s.pic[e][i2 + 1] IN
  IF p1 < 0 \/ p2 < 0 \/ p1 + 1 > Len(s.cip[c1]) \/ p2 + 1 > Len(s.cip[c2]) THEN Fail(s, "panic:index") ELSE
  LET s0 == DGuard(s, s.cip[c1][p1 + 1] = i1 /\ s.cip[c2][p2 + 1] = i2, "dassert:swap_indices")
      s1 == [s0 EXCEPT !.cip[c1][p1 + 1] = i2]
      s2 == [s1 EXCEPT !.cip[c2][p2 + 1] = i1]
  IN IF ~Ok(s0) THEN s0 ELSE [s2 EXCEPT !.pic[e][i1 + 1] = p2, !.pic[e][i2 + 1] = p1]

\* expert_remove_dependency for the edge with id `eid`
ExpertRemoveDep(s, e, eid) ==
  IF ~Ok(s) \/ ~s.valid[e] THEN s ELSE
  LET s0 == DGuard(s, RunningIsChild(s, e), "dassert:remove_dep_not_child") IN
  IF ~Ok(s0) THEN s0 ELSE
  IF ~\E i \in 1..Len(s0.edges[e]) : s0.edges[e][i].id = eid THEN Fail(s0, "panic:unwrap_edge_index") ELSE
  LET pos == CHOOSE i \in 1..Len(s0.edges[e]) : s0.edges[e][i].id = eid
      ix0 == pos - 1
      ec == s0.edges[e][pos].child
      last == Len(s0.edges[e])
      last0 == last - 1
      lc == s0.edges[e][last].child
      s1 == IF ix0 # last0
            THEN LET a == IF Nec(s0, e) THEN SwapChildrenExceptInKind(s0, e, ec, ix0, lc, last0) ELSE s0
                 IN IF ~Ok(a) THEN a ELSE
                    [a EXCEPT !.edges[e] = [@ EXCEPT ![pos] = [a.edges[e][last] EXCEPT !.ix = ix0],
                                                     ![last] = [a.edges[e][pos] EXCEPT !.ix = last0]]]
            ELSE s0
      s2 == IF Ok(s1) THEN DGuard([s1 EXCEPT !.fstale[e] = TRUE], TRUE, "") ELSE s1
      s3 == IF Ok(s2) /\ Nec(s2, e)
            THEN LET a == CheckUnnecessary(RemoveParent(s2, ec, last0, e), ec)
                     b == IF Ok(a) /\ ~InHeap(a, e) THEN RchInsert(a, e) ELSE a
                 IN IF Ok(b) /\ ~b.valid[ec]
                    THEN [b EXCEPT !.ninv[e] = IF "decr_invalid" \in Fix THEN @ - 1 ELSE @ + 1]
                    ELSE b
            ELSE s2
  IN IF ~Ok(s3) THEN s3 ELSE
     [s3 EXCEPT !.edges[e] = SubSeq(@, 1, Len(@) - 1), !.fstale[e] = TRUE]

\* state/expert.rs invalidate
ExpertInvalidate(s, e) ==
  IF ~Ok(s) THEN s ELSE
  LET s0 == DGuard(s, RunningIsChild(s, e), "dassert:invalidate_not_child") IN
  IF ~Ok(s0) THEN s0 ELSE
  PropagateInvalidity(InvalidateNode([s0 EXCEPT !.xdead = @ \cup {e}], e))

\* the user's recompute closure, by construction kind
ExpertValue(s, n) ==
  LET d == s.def[n] IN
  CASE d.f = "dep" ->     \* join / bind: value_cloned() of the current dependency
         IF s.xprev[n] = 0 \/ ~\E i \in 1..Len(s.edges[n]) : s.edges[n][i].id = s.xprev[n] THEN NoVal
         ELSE Value(s, s.edges[n][CHOOSE i \in 1..Len(s.edges[n]) : s.edges[n][i].id = s.xprev[n]].child)
    [] d.f = "cell" ->    \* like incremental-map's per-key node: reads a cell its controlling node maintains
         s.xcell[n]
    [] d.f = "sum" ->     \* dynamic sum over what the edge callbacks stored
         LET RECURSIVE Go(_, _)
             Go(acc, i) == IF i > Len(s.xstore[n]) THEN acc ELSE Go((acc + s.xstore[n][i].v[2]) % K, i + 1)
         IN I(Go(0, 1))

RECURSIVE FireAll(_, _, _, _)
FireAll(s, n, snapshot, i) ==
  IF ~Ok(s) \/ i > Len(snapshot) THEN s ELSE
  \* on_change of the cloned edge: uses the edge object, wherever it now sits
  LET ed == snapshot[i]
      s1 == IF ed.cb = "none" THEN s
            ELSE IF Value(s, ed.child) = NoVal
            THEN (IF "edge_cb_parent" \in Fix THEN s ELSE Fail(s, "panic:unwrap_edge_value"))
            ELSE LET v == Value(s, ed.child)
                     st0 == SelectSeq(s.xstore[n], LAMBDA r : r.edge # ed.id)
                 IN [s EXCEPT !.cbLog = Append(@, [e |-> n, edge |-> ed.id, child |-> ed.child, v |-> v]),
                              !.xstore[n] = Append(st0, [edge |-> ed.id, v |-> v])]
  IN FireAll(s1, n, snapshot, i + 1)

\* before_main_computation (kind/expert.rs:168-189) + recompute
RecomputeExpert(s, n) ==
  IF s.ninv[n] > 0
  THEN [PropagateInvalidity(InvalidateNode(s, n)) EXCEPT !.chain = 0]
  ELSE LET s1 == [s EXCEPT !.fstale[n] = FALSE]
           s2 == IF s1.fireAll[n]
                 THEN FireAll([s1 EXCEPT !.fireAll[n] = FALSE], n, s1.edges[n], 1) ELSE s1
       IN IF ~Ok(s2) THEN s2 ELSE
          LET v == ExpertValue(s2, n) IN
          IF v = NoVal THEN Fail(s2, "panic:expert_user_unwrap")
          ELSE ChangeValue(LogInv(s2, n, <<>>), n, v)

(* Controlling map nodes of the expert constructions of tests/expert.rs and  *)
(* incremental-map: what the user's closure does with the expert API, as data *)
RECURSIVE CtlSum(_, _, _, _)
CtlSum(s, e, ins, want) ==
  \* make the dependency list of the dynamic sum e equal to the first `want` nodes of ins
  IF ~Ok(s) THEN s ELSE
  LET have == Len(s.xdeps[e]) IN
  IF have < want
  THEN LET s1 == ExpertAddDep(s, e, ins[have + 1], "store")
       IN IF ~Ok(s1) THEN s1 ELSE CtlSum([s1 EXCEPT !.xdeps[e] = Append(@, s1.ne)], e, ins, want)
  ELSE IF have > want
  THEN LET eid == s.xdeps[e][have]
           s1 == ExpertRemoveDep(s, e, eid)
       IN IF ~Ok(s1) THEN s1 ELSE
          CtlSum([s1 EXCEPT !.xdeps[e] = SubSeq(@, 1, have - 1),
                            !.xstore[e] = SelectSeq(@, LAMBDA r : r.edge # eid)], e, ins, want)
  ELSE s
RunCtl(s, n, x) ==
  LET c == s.def[n].ctl IN
  CASE c.mode = "join" ->
         \* dep = add_dependency(rhs); remove_dependency(prev); prev = dep
         LET s1 == ExpertAddDep(s, c.x, x[2], "none")
             dep == s1.ne
             s2 == IF Ok(s1) /\ s.xprev[c.x] # 0 THEN ExpertRemoveDep(s1, c.x, s.xprev[c.x]) ELSE s1
         IN IF Ok(s2) THEN [s2 EXCEPT !.xprev[c.x] = dep] ELSE s2
    [] c.mode = "sum" -> CtlSum(s, c.x, c.ins, x[2])
    [] c.mode = "cell" ->   \* store the new input in the cell, then make_stale (btree_map.rs:181-186)
         ExpertMakeStale([s EXCEPT !.xcell[c.x] = x], c.x)
    [] c.mode = "stale" -> ExpertMakeStale(s, c.x)
    [] c.mode = "invalidate" -> IF x[2] = 1 THEN ExpertInvalidate(s, c.x) ELSE s

RecomputeOne(s0, n) ==
  IF ~Ok(s0) THEN s0 ELSE
  LET s == [s0 EXCEPT !.running = n, !.stats.recomputed = @ + 1, !.recAt[n] = s0.num,
                      !.lastRan[n] = s0.round, !.chain = 0,
                      !.order = Append(@, n)]
  IN IF ~s.valid[n] THEN Fail(s, "panic:recompute_invalid") ELSE
  LET d == s.def[n] IN
  CASE d.k = "var"   -> ChangeValue(s, n, s.cell[n])
    [] d.k = "const" -> ChangeValue(s, n, d.init)
    [] d.k = "map" ->
         LET x == Value(s, d.ins[1]) IN
         IF x = NoVal THEN Fail(s, "panic:unwrap_value") ELSE
         LET s1 == RunEffects(LogInv(s, n, <<x>>), d.eff, 1, n)
             s2 == IF "ctl" \in DOMAIN d THEN RunCtl(s1, n, x) ELSE s1
         IN ChangeValue(s2, n, IF "ctl" \in DOMAIN d THEN Unit ELSE ApplyMap(d, x))
    [] d.k = "map2" ->
         LET x == Value(s, d.ins[1])
             y == Value(s, d.ins[2]) IN
         IF x = NoVal \/ y = NoVal THEN Fail(s, "panic:unwrap_value") ELSE
         \* zip / depend_on are library combinators: their internal map2 is no user function
         ChangeValue(IF "silent" \in DOMAIN d THEN s ELSE LogInv(s, n, <<x, y>>), n, F2(d.f, x, y))
    [] d.k = "fold" ->
         LET vals == [i \in 1..Len(d.ins) |-> Value(s, d.ins[i])] IN
         IF \E i \in 1..Len(vals) : vals[i] = NoVal THEN Fail(s, "panic:unwrap_value") ELSE
         ChangeValue(LogInv(s, n, vals), n, FoldValue(d, vals))
    [] d.k = "mapref" ->
         ChangeValueManual([s EXCEPT !.val[n] = NoVal], n, NoVal, s.mrDid[n], FALSE)
    [] d.k = "mwo" ->
         LET x == Value(s, d.ins[1])
             old == s.val[n] IN
         IF x = NoVal THEN Fail(s, "panic:unwrap_value") ELSE
         LET new == F1(d.f, x)
             did == IF d.mode = "true" THEN TRUE ELSE (old = NoVal \/ old # new)
             s1 == LogInv(s, n, <<old, x>>)
         IN ChangeValueManual([s1 EXCEPT !.val[n] = new], n, NoVal, did, TRUE)
    [] d.k = "lhs"  -> RecomputeLhs(s, n)
    [] d.k = "main" -> RecomputeMain(s, n)
    [] d.k = "expert" -> RecomputeExpert(s, n)

---------------------------------------------------------------------------
(* Stabilise (state.rs:223-397)                                             *)
RECURSIVE AddNewObservers(_, _, _)
AddNewObservers(s, q, i) ==
  IF ~Ok(s) \/ i > Len(q) THEN s ELSE
  LET o == q[i] IN
  IF o \in s.orel THEN AddNewObservers(s, q, i + 1) ELSE
  CASE s.ostate[o] \in {"inuse", "disallowed"} -> Fail(s, "panic:new_observer_state")
    [] s.ostate[o] = "unlinked" -> AddNewObservers(s, q, i + 1)
    [] s.ostate[o] = "created" ->
         LET n == s.onode[o]
             was == Nec(s, n)
             s1 == [s EXCEPT !.ostate[o] = "inuse", !.allObs = @ \cup {o},
                             !.nobs[n] = @ \cup {o}, !.numH[n] = @ + Len(s.osubs[o])]
             s2 == HandleAfter(s1, n)
             s3 == DGuard(s2, Nec(s2, n), "dassert:observed_necessary")
             s4 == IF Ok(s3) /\ ~was THEN PropagateInvalidity(BecameNecessary(s3, n)) ELSE s3
         IN AddNewObservers(s4, q, i + 1)

RECURSIVE UnlinkDisallowed(_, _, _)
UnlinkDisallowed(s, q, i) ==
  IF ~Ok(s) \/ i > Len(q) THEN s ELSE
  LET o == q[i] IN
  IF o \in s.orel THEN UnlinkDisallowed(s, q, i + 1) ELSE
  LET s0 == DGuard(s, s.ostate[o] = "disallowed", "dassert:unlink_state")
      n == s.onode[o]
      s1 == [s0 EXCEPT !.ostate[o] = "unlinked", !.nobs[n] = @ \ {o},
                       !.numH[n] = @ - Len(s.osubs[o]), !.allObs = @ \ {o}]
  IN IF ~Ok(s0) THEN s0 ELSE UnlinkDisallowed(CheckUnnecessary(s1, n), q, i + 1)

StabiliseBegin(s) ==
  IF ~Ok(s) THEN s ELSE
  IF s.status # "idle" THEN Fail(s, "panic:status") ELSE
  LET s1 == [s EXCEPT !.status = "stabilising", !.round = @ + 1,
                      !.inv = <<>>, !.cutLog = <<>>, !.cbLog = <<>>, !.obsLog = <<>>,
                      !.invLog = <<>>, !.readLog = <<>>, !.dlv = <<>>, !.ndlv = <<>>, !.order = <<>>,
                      !.rhsLog = <<>>, !.memoLog = <<>>,
                      !.envAtStart = s.cell, !.subsAtBegin = s.osubs]
      s2 == AddNewObservers([s1 EXCEPT !.newObs = <<>>], s1.newObs, 1)
  IN UnlinkDisallowed([s2 EXCEPT !.disObs = <<>>], s2.disObs, 1)

\* remove_min (recompute_heap.rs:165-188)
RchRemoveMin(s) ==
  LET lo == RchRaise(s, s.rchLower)
      q == QGet(s.rch, lo)
      n == q[1]
  IN [s EXCEPT !.rchLower = lo, !.rch = QSet(@, lo, Tail(q)), !.hHeap[n] = -1,
               !.rchLen = @ - 1, !.popped = n]

HeapEmpty(s) == s.rchLen = 0
\* one user-function boundary of the `while let Some(node) = remove_min()` loop
StabiliseStep(s) ==
  IF s.chain # 0 THEN RecomputeOne(s, s.chain)
  ELSE LET s1 == RchRemoveMin(s) IN RecomputeOne(s1, s1.popped)

(* stabilise_end, first half (285-333): bump, deferred writes, dead vars, classify *)
RECURSIVE ApplyDeferred(_)
ApplyDeferred(s) ==
  IF ~Ok(s) \/ s.setDuring = <<>> THEN s ELSE
  LET v == s.setDuring[Len(s.setDuring)]          \* stack.pop()
      s1 == [s EXCEPT !.setDuring = SubSeq(@, 1, Len(@) - 1)]
  IN IF ~Alive(s1, v) \/ s1.pend[v] = NoVal THEN ApplyDeferred(s1)
     ELSE ApplyDeferred(DidSetVar([s1 EXCEPT !.cell[v] = s1.pend[v], !.pend[v] = NoVal], v))

\* node_update (node.rs:966-977)
NodeUpdate(s, n) ==
  IF ~s.valid[n] THEN "Invalidated"
  ELSE IF ~Nec(s, n) THEN "Unnecessary"
  ELSE IF "update_changed" \in Fix
       THEN (IF Value(s, n) # NoVal /\ s.chgAt[n] + 1 = s.num THEN "Changed" ELSE "Necessary")
       ELSE (IF Value(s, n) # NoVal THEN "Changed" ELSE "Necessary")

StabiliseEndA(s) ==
  IF ~Ok(s) THEN s ELSE
  LET s1 == [s EXCEPT !.num = @ + 1, !.running = 0]
      s2 == ApplyDeferred(s1)
      s3 == [s2 EXCEPT !.broken = @ \cup SeqSet(s2.deadVars), !.deadVars = <<>>]
      live == SelectSeq(s3.has, LAMBDA n : Alive(s3, n))
      runq == [i \in 1..Len(live) |-> [n |-> live[i], u |-> NodeUpdate(s3, live[i])]]
  IN IF ~Ok(s3) THEN s3 ELSE
     [s3 EXCEPT !.has = <<>>,
                !.inHas = [n \in 1..s3.n |-> IF n \in SeqSet(live) THEN FALSE ELSE s3.inHas[n]],
                !.runq = runq, !.status = "handlers",
                \* ghost: who was in use / subscribed when the handlers started to run
                !.ostateH = s3.ostate, !.osubsH = s3.osubs]

(* OnUpdateHandler::run (node_update.rs:97-126): returns "" (nothing) or the update to deliver *)
HandlerDecision(prev, u) ==
  CASE prev = "Invalidated" -> ""
    [] prev = "Changed" /\ u = "Necessary" -> ""
    [] prev = "Necessary" /\ u = "Necessary" -> ""
    [] prev = "Unnecessary" /\ u = "Unnecessary" -> ""
    [] prev \in {"never", "Unnecessary"} /\ u = "Changed" -> "Necessary"
    [] OTHER -> u

RECURSIVE RunObsHandlers(_, _, _, _, _)
\* run_all for observer o on node n with update u (internal_observer.rs:142-155)
RunObsHandlers(s, o, n, u, i) ==
  IF ~Ok(s) \/ i > Len(s.osubs[o]) THEN s ELSE
  LET h == s.osubs[o][i] IN
  CASE s.ostate[o] \in {"created", "unlinked"} -> Fail(s, "panic:handler_observer_state")
    [] s.ostate[o] = "disallowed" -> RunObsHandlers(s, o, n, u, i + 1)
    [] OTHER ->
       IF ~(h.at < s.num) THEN RunObsHandlers(s, o, n, u, i + 1) ELSE
       LET dec == HandlerDecision(h.prev, u) IN
       IF dec = "" THEN RunObsHandlers(s, o, n, u, i + 1) ELSE
       \* really_run_downcast: value unwrap for Changed / Necessary; Unnecessary panics in public.rs
       IF dec \in {"Changed", "Necessary"} /\ Value(s, n) = NoVal THEN Fail(s, "panic:unwrap_handler_value") ELSE
       IF dec = "Unnecessary" THEN Fail(s, "panic:subscription_unnecessary") ELSE
       LET s1 == [s EXCEPT !.osubs[o][i].prev = dec,
                           !.dlv = Append(@, [o |-> o, t |-> h.tok, u |-> dec,
                                              v |-> IF dec = "Invalidated" THEN NoVal ELSE Value(s, n)])]
           s2 == RunEffects(s1, h.eff, 1, 0)
       IN RunObsHandlers(s2, o, n, u, i + 1)

\* the node's own on_update handlers (incr.rs:402-407; node.rs:977-983): same automaton as a
\* subscription, but Unnecessary is an ordinary update here
RECURSIVE RunNodeHandlers(_, _, _, _)
RunNodeHandlers(s, n, u, i) ==
  IF ~Ok(s) \/ i > Len(s.nsubs[n]) THEN s ELSE
  LET h == s.nsubs[n][i] IN
  IF ~(h.at < s.num) THEN RunNodeHandlers(s, n, u, i + 1) ELSE
  LET dec == HandlerDecision(h.prev, u) IN
  IF dec = "" THEN RunNodeHandlers(s, n, u, i + 1) ELSE
  IF dec \in {"Changed", "Necessary"} /\ Value(s, n) = NoVal THEN Fail(s, "panic:unwrap_handler_value") ELSE
  RunNodeHandlers([s EXCEPT !.nsubs[n][i].prev = dec,
                            !.ndlv = Append(@, [n |-> n, i |-> i, u |-> dec,
                                                v |-> IF dec \in {"Invalidated", "Unnecessary"} THEN NoVal ELSE Value(s, n)])],
                  n, u, i + 1)

\* one entry of the run queue (state.rs:334-344; node.rs:931-944); observers in id order
StabiliseHandlersStep(s) ==
  IF ~Ok(s) THEN s ELSE
  LET e == s.runq[1]
      s0 == [s EXCEPT !.runq = Tail(@)]
      s1 == IF Alive(s0, e.n) THEN RunNodeHandlers(s0, e.n, e.u, 1) ELSE s0
      obs == s1.nobs[e.n]
      RECURSIVE Each(_, _)
      Each(t, todo) ==
        IF ~Ok(t) \/ todo = {} THEN t ELSE
        LET o == CHOOSE x \in todo : \A y \in todo : x <= y IN
        IF o \notin t.nobs[e.n] \/ o \in t.orel THEN Each(t, todo \ {o})
        ELSE Each([RunObsHandlers([t EXCEPT !.busyObs = o], o, e.n, e.u, 1) EXCEPT !.busyObs = 0],
                  todo \ {o})
  IN IF ~Alive(s1, e.n) THEN s1 ELSE Each(s1, obs)

\* weak maps are garbage collected (state.rs:345-348), then status := NotStabilising
StabiliseFinish(s) ==
  IF ~Ok(s) THEN s ELSE
  [s EXCEPT !.status = "idle",
            \* ghost logs of the round are consumed by now: clear them so quiescent states coincide
            !.inv = <<>>, !.cutLog = <<>>, !.cbLog = <<>>, !.obsLog = <<>>, !.invLog = <<>>,
            !.readLog = <<>>, !.dlv = <<>>, !.order = <<>>, !.rhsLog = <<>>, !.memoLog = <<>>,
            !.lastRan = [n \in 1..s.n |-> 0], !.lastChg = [n \in 1..s.n |-> 0],
            !.subsAtBegin = <<>>, !.ostateH = <<>>, !.osubsH = <<>>, !.obsTouched = {}, !.popped = 0, !.chainFrom = 0, !.running = 0,
            !.memos = [i \in 1..Len(s.memos) |->
                         [s.memos[i] EXCEPT !.table = SelectSeq(@, LAMBDA r : Alive(s, r.node))]]]

\* is_stable (state.rs:352-356)
IsStable(s) == s.rchLen = 0 /\ s.deadVars = <<>> /\ s.newObs = <<>>

---------------------------------------------------------------------------
(* Initial state and API-level operations                                   *)
InitState(maxH) ==
  [n |-> 0, def |-> <<>>, valid |-> <<>>, val |-> <<>>, recAt |-> <<>>, chgAt |-> <<>>,
   height |-> <<>>, hHeap |-> <<>>, hAhh |-> <<>>, par |-> <<>>, cip |-> <<>>, pic |-> <<>>,
   scope |-> <<>>, cutoff |-> <<>>, force |-> <<>>, nobs |-> <<>>, numH |-> <<>>,
   inHas |-> <<>>, mrDid |-> <<>>, rhs |-> <<>>, created |-> <<>>, gen |-> <<>>, born |-> <<>>,
   edges |-> <<>>, fstale |-> <<>>, ninv |-> <<>>, fireAll |-> <<>>,
   xprev |-> <<>>, xstore |-> <<>>, xdeps |-> <<>>, xcell |-> <<>>, ne |-> 0, xdead |-> {}, poisoned |-> FALSE, handles |-> {}, vhandles |-> {}, obsTouched |-> {}, cov |-> {}, refused |-> 0, memos |-> <<>>, memoLog |-> <<>>,
   setAt |-> <<>>, cell |-> <<>>, pend |-> <<>>,
   \* observers
   no |-> 0, onode |-> <<>>, ostate |-> <<>>, osubs |-> <<>>, onext |-> <<>>, oclones |-> <<>>,
   newObs |-> <<>>, disObs |-> <<>>, allObs |-> {}, orel |-> {}, busyObs |-> 0,
   \* global
   status |-> "idle", num |-> 0, panic |-> "",
   rch |-> QEmpty, rchLen |-> 0, rchLower |-> maxH + 1, rchMax |-> maxH,
   ahhQ |-> QEmpty, ahhLen |-> 0, ahhLower |-> maxH + 1, ahhSeen |-> 0, ahhMax |-> maxH,
   pinv |-> <<>>, has |-> <<>>, runq |-> <<>>, setDuring |-> <<>>, deadVars |-> <<>>,
   broken |-> {}, curScope |-> 0, chain |-> 0, chainFrom |-> 0, popped |-> 0, running |-> 0,
   earlyReturn |-> FALSE, rel |-> {}, junk |-> {}, leaked |-> <<>>,
   stats |-> [created |-> 0, changed |-> 0, recomputed |-> 0, invalidated |-> 0,
              becameNec |-> 0, becameUnnec |-> 0, varSets |-> 0, activeObs |-> 0],
   \* ghost
   round |-> 0, inv |-> <<>>, runs |-> <<>>, cutLog |-> <<>>, cbLog |-> <<>>, obsLog |-> <<>>,
   invLog |-> <<>>, readLog |-> <<>>, retLog |-> <<>>, dlv |-> <<>>, order |-> <<>>,
   rhsLog |-> <<>>, lastRan |-> <<>>, lastChg |-> <<>>, envAtStart |-> <<>>, subsAtBegin |-> <<>>,
   ostateH |-> <<>>, osubsH |-> <<>>, armed |-> {},
   \* node-level on_update handlers (Incr::on_update): per node a sequence of [prev, at]; ghost log ndlv
   nsubs |-> <<>>, ndlv |-> <<>>]

ApiVar(s, v)   == NewNode(s, [k |-> "var", init |-> v], 0)          \* IncrState::var: Scope::Top
ApiConst(s, v) == NewNode(s, [k |-> "const", init |-> v], s.curScope)
ApiMap(s, f, in, eff) ==
  NewNode(s, [k |-> "map", f |-> f, cap |-> NoVal, ins |-> <<in>>, eff |-> eff], s.curScope)
ApiMap2(s, f, a, b) == NewNode(s, [k |-> "map2", f |-> f, ins |-> <<a, b>>], s.curScope)
\* State::fold (state.rs:169-191): empty input list is a constant
ApiFold(s, f, ins, init) ==
  IF ins = <<>> THEN ApiConst(s, init)
  ELSE NewNode(s, [k |-> "fold", f |-> f, ins |-> ins, init |-> init], s.curScope)
ApiMapRef(s, f, in) == NewNode(s, [k |-> "mapref", f |-> f, ins |-> <<in>>], s.curScope)
ApiMwo(s, f, mode, in) ==
  NewNode(s, [k |-> "mwo", f |-> f, mode |-> mode, ins |-> <<in>>], s.curScope)
\* Incr::zip (incr.rs:132-139): two (valid) constants fold into a constant
ApiZip(s, a, b) ==
  IF s.valid[a] /\ s.valid[b] /\ Kind(s, a) = "const" /\ Kind(s, b) = "const"
  THEN ApiConst(s, P(s.def[a].init[2], s.def[b].init[2]))
  ELSE NewNode(s, [k |-> "map2", f |-> "pair", ins |-> <<a, b>>, silent |-> TRUE], s.curScope)
\* Incr::depend_on (incr.rs:394-398)
ApiDependOn(s, a, on) ==
  LET s1 == NewNode(s, [k |-> "map2", f |-> "fst", ins |-> <<a, on>>, silent |-> TRUE], s.curScope) IN
  IF Ok(s1) THEN [s1 EXCEPT !.cutoff[s1.n] = [c |-> "dep", in |-> a]] ELSE s1
\* IncrState::weak_memoize_fn: the function remembers the scope it was created in
ApiMemoNew(s, f, over) ==
  [s EXCEPT !.memos = Append(@, [f |-> f, over |-> over, scope |-> s.curScope, table |-> <<>>])]
\* expert::Node::new (state/expert.rs:8-31) in the current scope
ApiExpert(s, f) == NewNode(s, [k |-> "expert", f |-> f], s.curScope)
\* Node::add_dependency(_with) called outside stabilise (construction time)
ApiAddDep(s, e, child, cb) == ExpertAddDep(s, e, child, cb)
\* join(incr) of tests/expert.rs: expert node E (id n+1), controlling map L (id n+2), E depends on L
ApiXJoin(s, in) ==
  LET s1 == ApiExpert(s, "dep")
      e == s1.n
      s2 == NewNode(s1, [k |-> "map", f |-> "id", cap |-> NoVal, ins |-> <<in>>, eff |-> <<>>,
                         ctl |-> [mode |-> "join", x |-> e]], s1.curScope)
  IN ExpertAddDep(s2, e, s2.n, "none")
\* a cell node: expert node E (id n+1) whose value is a cell written by its controlling map L (id n+2)
\* over `in`, which calls make_stale on E whenever `in` changes (the per-key node of incr_mapi_)
ApiXCell(s, in) ==
  LET s1 == ApiExpert(s, "cell")
      e == s1.n
      s2 == NewNode(s1, [k |-> "map", f |-> "id", cap |-> NoVal, ins |-> <<in>>, eff |-> <<>>,
                         ctl |-> [mode |-> "cell", x |-> e]], s1.curScope)
  IN ExpertAddDep(s2, e, s2.n, "none")
\* dynamic sum of the first sel-many nodes of ins
ApiXSum(s, sel, ins) ==
  LET s1 == ApiExpert(s, "sum")
      e == s1.n
      s2 == NewNode(s1, [k |-> "map", f |-> "id", cap |-> NoVal, ins |-> <<sel>>, eff |-> <<>>,
                         ctl |-> [mode |-> "sum", x |-> e, ins |-> ins]], s1.curScope)
  IN ExpertAddDep(s2, e, s2.n, "none")
ApiBind(s, lhs, recipe) == NewBind(s, lhs, recipe, s.curScope)
\* test device: make the observability callback of expert node n panic the next time n becomes observable
\* Incr::on_update (incr.rs:402-407): the handler is only counted and stored; unlike an observer
\* subscription it does NOT put the node on the handle-after-stabilisation stack, so it first hears of
\* the node when the node is next handled for another reason
ApiOnUpdate(s, n) == [s EXCEPT !.numH[n] = @ + 1, !.nsubs[n] = Append(@, [prev |-> "never", at |-> s.num])]
ApiXArm(s, n) == [s EXCEPT !.armed = @ \cup {n}]
ApiSetCutoff(s, n, c) == [s EXCEPT !.cutoff[n] = c]

\* State::observe (state.rs:215-221)
ApiObserve(s, n) ==
  LET o == s.no + 1 IN
  [s EXCEPT !.no = o, !.onode = Append(@, n), !.ostate = Append(@, "created"),
            !.osubs = Append(@, <<>>), !.onext = Append(@, 1), !.oclones = Append(@, 1),
            !.newObs = Append(@, o), !.stats.activeObs = @ + 1]
ApiObsClone(s, o) == [s EXCEPT !.oclones[o] = @ + 1]
\* Drop for Observer (public.rs:155-174): the last clone disallows
ApiObsDrop(s, o) ==
  LET s1 == [s EXCEPT !.oclones[o] = @ - 1] IN
  IF s1.oclones[o] = 0 THEN DisallowObs(s1, o) ELSE s1
\* State::set_max_height_allowed (state.rs:449-457; adjust_heights_heap.rs:42-49;
\* recompute_heap.rs:194-208).  Without "max_height" the vectors are resized to N queues
\* (limit N-1) and the debug check fails on every shrink (defect 4).
ApiSetMaxHeight(s, new) ==
  IF ~Ok(s) THEN s ELSE
  IF s.status = "stabilising" THEN Fail(s, "panic:set_max_height_stabilising") ELSE
  IF new < s.ahhSeen THEN Fail(s, "panic:max_height_seen") ELSE
  LET s1 == DGuard(s, s.ahhLen = 0, "dassert:ahh_nonempty")
      oldLen == s.rchMax + 1
      fixed == "max_height" \in Fix
      newLen == IF fixed THEN new + 1 ELSE new
      s2 == IF fixed
            THEN DGuard(s1, \A h \in DOMAIN s1.rch : h <= new, "dassert:rch_shrink_nonempty")
            ELSE DGuard(s1, ~(new + 1 < oldLen), "dassert:rch_shrink")
  IN IF ~Ok(s2) THEN s2 ELSE
     [s2 EXCEPT !.ahhMax = newLen - 1, !.rchMax = newLen - 1,
                !.rchLower = Min(@, newLen + 1)]
\* a panic that escaped a public call was caught by the caller: the engine state stays as the
\* unwinding left it (in particular `status`), the caller carries on
Recover(s) == [s EXCEPT !.panic = "", !.poisoned = TRUE, !.chain = 0]
\* user-held handles (ownership model, C12): the harness keeps a handle to every node an API call
\* returns (not to lhs_change nodes, not to bind-created nodes unless leaked) until it drops it
Hold(s, n) == IF Ok(s) THEN [s EXCEPT !.handles = @ \cup {n}] ELSE s
HoldVar(s, n) == IF Ok(s) THEN [s EXCEPT !.handles = @ \cup {n}, !.vhandles = @ \cup {n}] ELSE s
ApiDropHandle(s, n) == [s EXCEPT !.handles = @ \ {n}]
\* Drop for public::Var (public.rs:272-295): the last handle queues the var for break_rc_cycle
ApiDropVar(s, v) ==
  [s EXCEPT !.vhandles = @ \ {v}, !.handles = @ \ {v}, !.deadVars = Append(@, v)]
ApiClearLogs(s) == [s EXCEPT !.retLog = <<>>]
=============================================================================
