------------------------------- MODULE MapMon -------------------------------
(***************************************************************************)
(* Trace checker for the random runs recorded by                           *)
(* `mapops --random N --seed S --out-trace <file>` (ndjson, one line per   *)
(* action, all operators on all map types in lock-step).  One step per     *)
(* line.  The monitor reconstructs the input maps and the observed set     *)
(* from the logged actions and judges, at every stabilise line, every      *)
(* logged operator entry:                                                  *)
(*   C15  logged output (of the operator and of its dependant) equals the  *)
(*        Definition (FilterMapDef / FoldDef / MergeDef / PartitionDef)    *)
(*        applied to the current inputs;                                   *)
(*   C17  logged user-function calls satisfy Proportional w.r.t. the       *)
(*        inputs at the previous stabilise in which the operator was       *)
(*        observed (its previous run) and now; no calls while unobserved;  *)
(*        for a chain (chain_fm_map, chain_fm_fold) the calls with role    *)
(*        "f" are the first stage's, judged against the input maps, the    *)
(*        others the second stage's, judged against the intermediate maps  *)
(*        (MidDef of the input then and now: the second stage ran last     *)
(*        when the intermediate map changed last);                         *)
(*   C04  a recorded panic.                                                *)
(* A failed predicate prints <<"JUDGE", line, json>>.  The trace is        *)
(* accepted (TRACE-DONE) iff every line was consumed.                      *)
(*                                                                         *)
(* Lines: {"a":"reset","run":r} | {"a":"set","which":w,"m":[[k,v],..]}     *)
(*  | {"a":"observe","op":o} | {"a":"unobserve","op":o}                     *)
(*  | {"a":"stabilise","obs":[{"op","mt","observed","err","out","down",     *)
(*                             "calls":[{"role","key","args"}]}]}           *)
(*  | {"a":"panic","mt","msg","during"}                                     *)
(*                                                                         *)
(* Run: TRACE=<file> JAVA_TOOL_OPTIONS="-Xss1g                             *)
(*  -Dtlc2.tool.queue.IStateQueue=StateDeque" tlc -workers 1               *)
(*  -config MapMon.cfg MapMon.tla                                          *)
(* The variable `st` of MapOps holds the monitor's reconstruction.         *)
(***************************************************************************)
EXTENDS MapOps, Json, IOUtils

Rec == ndJsonDeserialize(IOEnv.TRACE)

VARIABLE l
monvars == <<st, l>>

\* number of map types an operator is defined for (btree, rc, ord)
NTypes(o) == CASE o \in MergeOps -> 2 [] o \in PartOps -> 1 [] OTHER -> 3

MonInit == [inp |-> [w \in Vars |-> EmptyMap],
            obs |-> {},
            ran |-> [o \in AllOps |-> FALSE],
            lastIn |-> [o \in AllOps |-> [i \in DOMAIN Reads(o) |-> EmptyMap]]]

\* [[k, v], ...] -> map
ToMap(ps) == LET D == {ps[i][1] : i \in DOMAIN ps}
             IN [k \in D |-> LET i == CHOOSE j \in DOMAIN ps : ps[j][1] = k IN ps[i][2]]

Ins(s, o) == [i \in DOMAIN Reads(o) |-> s.inp[Reads(o)[i]]]

Bad(prop, what, x) == [prop |-> prop, what |-> what, op |-> x.op, mt |-> x.mt]

\* judgement of one logged operator entry x of a stabilise line, in monitor state s
JudgeEntry(s, x) ==
  LET o == x.op
      cur == Ins(s, o)
      want == OutJson(o, Def(o, cur))
      keys == IF s.ran[o] THEN AllowedKeys(s.lastIn[o], cur) ELSE AllKeys(s.lastIn[o], cur)
      prevMid == <<MidDef(o, s.lastIn[o][1])>>
      curMid == <<MidDef(o, cur[1])>>
      keys2 == IF s.ran[o] THEN AllowedKeys(prevMid, curMid) ELSE AllKeys(prevMid, curMid)
      proportional ==
        IF o \in ChainOps
        THEN /\ ProportionalCalls(Stage1(o), Stage1Calls(x.calls), keys, cur)
             /\ ProportionalCalls(Stage2(o), Stage2Calls(x.calls), keys2, curMid)
        ELSE ProportionalCalls(o, x.calls, keys, cur)
  IN IF o \notin AllOps THEN {Bad("C15", "unknown operator", x)}
     ELSE IF ~x.observed
     THEN IF x.calls # <<>> THEN {Bad("C17", "user functions called while unobserved", x)} ELSE {}
     ELSE IF o \notin s.obs THEN {Bad("C15", "entry for an operator that is not observed", x)}
     ELSE IF x.err # "" THEN {Bad("C15", "observer error: " \o x.err, x)}
     ELSE (IF x.out # want THEN {Bad("C15", "output differs from the definition", x)} ELSE {})
          \cup (IF x.out = want /\ x.down # want
                THEN {Bad("C15", "dependant of the operator is stale (did_change not reported)", x)} ELSE {})
          \cup (IF ~proportional
                THEN {Bad("C17", "calls not proportional to the change", x)} ELSE {})

JudgeStabilise(s, e) ==
  UNION {JudgeEntry(s, e.obs[i]) : i \in DOMAIN e.obs}
  \cup {[prop |-> "C15", what |-> "observed operator without (all) logged outputs", op |-> o, mt |-> "*"] :
          o \in {o \in s.obs : Cardinality({i \in DOMAIN e.obs : e.obs[i].op = o /\ e.obs[i].observed}) # NTypes(o)}}

AfterStabilise(s) ==
  [s EXCEPT !.ran = [o \in AllOps |-> s.ran[o] \/ o \in s.obs],
            !.lastIn = [o \in AllOps |-> IF o \in s.obs THEN Ins(s, o) ELSE s.lastIn[o]]]

TraceInit == st = MonInit /\ l = 0

TraceStep ==
  /\ l < Len(Rec)
  /\ l' = l + 1
  /\ LET e == Rec[l + 1] IN
     CASE e.a = "reset"     -> st' = MonInit
       [] e.a = "set"       -> st' = [st EXCEPT !.inp[e.which] = ToMap(e.m)]
       [] e.a = "observe"   -> st' = [st EXCEPT !.obs = @ \cup {e.op}]
       [] e.a = "unobserve" -> st' = [st EXCEPT !.obs = @ \ {e.op}]
       [] e.a = "stabilise" ->
            LET bad == JudgeStabilise(st, e) IN
            /\ st' = AfterStabilise(st)
            /\ \A b \in bad : PrintT(<<"JUDGE", l + 1, ToJson(b)>>)
       [] e.a = "panic"     ->
            /\ st' = st
            /\ PrintT(<<"JUDGE", l + 1, ToJson([prop |-> "C04", what |-> "panic during " \o e.during \o ": " \o e.msg,
                                               op |-> "*", mt |-> e.mt])>>)
       [] OTHER             -> st' = st

TraceSpec == TraceInit /\ [][TraceStep]_monvars
TraceView == <<l>>

\* every line consumed
TraceAccepted ==
  LET d == TLCGet("stats").diameter IN
  IF d - 1 = Len(Rec) THEN PrintT(<<"TRACE-DONE", Len(Rec)>>)
  ELSE PrintT(<<"TRACE-STUCK", d, Len(Rec)>>) /\ FALSE
=============================================================================
