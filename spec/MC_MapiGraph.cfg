SPECIFICATION MCSpec
CONSTANTS
  NK = 2
  NV = 2
  NW = 2
  Shapes = {"S1", "S2", "S3", "S4", "S5"}
  Filters = {FALSE, TRUE}
  Cuts = {"eq", "fn"}
  Defects = {}
  MaxEdits = 4
  MaxTog = 4
  Export = TRUE
VIEW View
INVARIANT InvOpCorrect
INVARIANT InvBuilderOnlyNewKeys
INVARIANT InvUnchangedKeysQuiet
ALIAS Alias
CHECK_DEADLOCK FALSE
