------------------------------ MODULE IncrRef ------------------------------
(***************************************************************************)
(* Reference semantics and property predicates.  Nothing in the first half *)
(* looks at the engine's cached values, stamps, heights or queues: `Eval`  *)
(* is a from-scratch evaluation of a node's defining expression, `DeadRef` *)
(* the reference notion of invalidity, `Cone` the syntactic dependency     *)
(* cone.  The second half states the listed properties over a state `s`;   *)
(* the same predicates are used as TLC invariants of the engine spec       *)
(* (the MC modules), as the oracle exported with behaviours (binding A) and over     *)
(* states reconstructed from recorded traces (IncrMon, binding B).         *)
(***************************************************************************)
EXTENDS Incr

---------------------------------------------------------------------------
(* From-scratch evaluation                                                  *)
RECURSIVE EvalD(_, _, _, _)
RECURSIVE EvalRecipe(_, _, _, _, _)
RECURSIVE EvalExpert(_, _, _, _)
\* the controlling map node of an expert construction is its first (static) dependency
CtlOf(s, e) == CHOOSE m \in 1..s.n : s.def[m].k = "map" /\ "ctl" \in DOMAIN s.def[m] /\ s.def[m].ctl.x = e
                                      /\ s.def[m].ctl.mode \in {"join", "sum", "cell"}
EvalExpert(s, e, env, dep) ==
  LET m == CtlOf(s, e)
      c == s.def[m].ctl
      x == EvalD(s, s.def[m].ins[1], env, dep - 1) IN
  CASE c.mode = "join" -> EvalD(s, x[2], env, dep - 1)
    [] c.mode = "cell" -> x
    [] c.mode = "sum" ->
         LET RECURSIVE Go(_, _)
             Go(acc, i) == IF i > x[2] THEN acc ELSE Go((acc + EvalD(s, c.ins[i], env, dep - 1)[2]) % K, i + 1)
         IN I(Go(0, 1))
EvalRecipe(s, rc, v, env, dep) ==
  CASE rc.r = "pick"  -> EvalD(s, rc.alts[v[2] + 1], env, dep - 1)
    [] rc.r = "ref"   -> EvalD(s, v[2], env, dep - 1)
    [] rc.r = "const" -> v
    [] rc.r \in {"map", "chain"} -> F2(rc.f, v, EvalD(s, rc.over, env, dep - 1))
    [] rc.r = "alt"   -> EvalRecipe(s, rc.alts[v[2] + 1], v, env, dep)
    [] rc.r = "bind"  -> EvalRecipe(s, rc.inner, EvalD(s, rc.over, env, dep - 1), env, dep)
    [] rc.r \in {"junk", "leak", "boom"} -> EvalRecipe(s, rc.then, v, env, dep)
    [] rc.r = "memo"  -> IF s.memos[rc.m].f = "const" THEN v
                         ELSE F2(s.memos[rc.m].f, v, EvalD(s, s.memos[rc.m].over, env, dep - 1))
EvalD(s, n, env, dep) ==
  IF dep <= 0 THEN NoVal ELSE   \* only on (transiently) cyclic graphs
  LET d == s.def[n] IN
  CASE d.k = "var"    -> env[n]
    [] d.k = "const"  -> d.init
    [] d.k = "map"    -> IF "ctl" \in DOMAIN d THEN Unit ELSE ApplyMap(d, EvalD(s, d.ins[1], env, dep - 1))
    [] d.k = "map2"   -> F2(d.f, EvalD(s, d.ins[1], env, dep - 1), EvalD(s, d.ins[2], env, dep - 1))
    [] d.k = "fold"   -> FoldValue(d, [i \in 1..Len(d.ins) |-> EvalD(s, d.ins[i], env, dep - 1)])
    [] d.k \in {"mapref", "mwo"} -> F1(d.f, EvalD(s, d.ins[1], env, dep - 1))
    [] d.k = "lhs"    -> Unit
    [] d.k = "main"   -> EvalRecipe(s, s.def[d.lc].recipe, EvalD(s, s.def[d.lc].ins[1], env, dep - 1), env, dep)
    [] d.k = "expert" -> EvalExpert(s, n, env, dep)


Eval(s, n, env) == EvalD(s, n, env, 2 * s.n + 4)

(* Which node does the bind closure return for lhs value v?  0 = a fresh node *)
RECURSIVE RecipeExisting(_, _)
RecipeExisting(rc, v) ==
  CASE rc.r = "pick" -> rc.alts[v[2] + 1]
    [] rc.r = "ref"  -> v[2]
    [] rc.r = "alt"  -> RecipeExisting(rc.alts[v[2] + 1], v)
    [] rc.r \in {"junk", "leak", "boom"} -> RecipeExisting(rc.then, v)
    [] OTHER -> 0

(* Reference invalidity: superseded bind generations and what depends on them *)
\* least fixed point: a node already on the current path contributes FALSE
RECURSIVE DeadRefP(_, _, _)
DeadRefP(s, n, seen) ==
  IF n \in seen THEN FALSE ELSE
  LET d == s.def[n]
      b == s.scope[n]
      sn == seen \cup {n} IN
  \/ (b # 0 /\ (s.born[n] < s.gen[b] \/ DeadRefP(s, s.def[b].main, sn)))
  \/ CASE d.k \in {"var", "const"} -> FALSE
       [] d.k \in {"map", "map2", "fold", "mapref", "mwo", "lhs"} ->
            \E i \in 1..Len(d.ins) : DeadRefP(s, d.ins[i], sn)
       [] d.k = "main" -> DeadRefP(s, d.lc, sn) \/ (s.rhs[d.lc] # 0 /\ DeadRefP(s, s.rhs[d.lc], sn))
       [] d.k = "expert" -> n \in s.xdead \/ \E i \in 1..Len(s.edges[n]) : DeadRefP(s, s.edges[n][i].child, sn)
       [] OTHER -> FALSE
DeadRef(s, n) == DeadRefP(s, n, {})

(* Cutoffs that only suppress equal values, i.e. where C01's proviso holds   *)
ExactCutoff(c) == c.c \in {"eq", "never", "dep", "beq"}
RECURSIVE ExactConeP(_, _, _)
ExactCone(s, n) == ExactConeP(s, n, {})
ExactConeP(s, n, seen) ==
  IF n \in seen THEN TRUE ELSE
  LET d == s.def[n]
      sn == seen \cup {n} IN
  /\ ExactCutoff(s.cutoff[n])
  /\ CASE d.k \in {"var", "const"} -> TRUE
       [] d.k = "mwo" -> d.mode \in {"ne", "true"} /\ ExactConeP(s, d.ins[1], sn)
       [] d.k \in {"map", "map2", "fold", "mapref", "lhs"} ->
            \A i \in 1..Len(d.ins) : ExactConeP(s, d.ins[i], sn)
       [] d.k = "main" -> ExactConeP(s, d.lc, sn) /\ (s.rhs[d.lc] = 0 \/ ExactConeP(s, s.rhs[d.lc], sn))
       [] d.k = "expert" -> \A i \in 1..Len(s.edges[n]) : ExactConeP(s, s.edges[n][i].child, sn)
       [] OTHER -> FALSE

(* Dependency cone of a set of nodes through the CURRENT bind right-hand sides *)
RECURSIVE ConeOf(_, _, _)
ConeOf(s, todo, acc) ==
  IF todo = {} THEN acc ELSE
  LET n == CHOOSE x \in todo : TRUE
      d == s.def[n]
      kids == CASE d.k \in {"var", "const"} -> {}
                [] d.k = "main" -> {d.lc} \cup (IF s.rhs[d.lc] = 0 THEN {} ELSE {s.rhs[d.lc]})
                [] d.k = "expert" -> {s.edges[n][i].child : i \in 1..Len(s.edges[n])}
                [] OTHER -> SeqSet(d.ins)
      new == (kids \ acc) \ {n}
  IN ConeOf(s, (todo \ {n}) \cup new, acc \cup {n})
\* observers that are linked into the graph right now
LinkedObs(s) == {o \in 1..s.no : s.ostate[o] \in {"inuse", "disallowed"}}
LiveObs(s) == {o \in 1..s.no : s.ostate[o] \in {"created", "inuse"}}
ObservedNodes(s, os) == {s.onode[o] : o \in os}

---------------------------------------------------------------------------
(* What the reference says an observer must read at a quiescent point       *)
RefRead(s, o) ==
  CASE s.ostate[o] = "created" -> <<"err", "NeverStabilised">>
    [] s.ostate[o] = "inuse" ->
         IF DeadRef(s, s.onode[o]) THEN <<"err", "ObservingInvalid">>
         ELSE <<"ok", Eval(s, s.onode[o], s.envAtStart)>>
    [] OTHER -> <<"err", "Disallowed">>

\* C13: after a caught panic inside stabilise every read fails; after a panic in a handler
\* (propagation finished) reads show the fully propagated values
RefReadS(s, o) ==
  IF s.status = "stabilising" THEN <<"err", "CurrentlyStabilising">> ELSE RefRead(s, o)

\* which property a wrong VALUE read by observer o belongs to (expert constructions: C14,
\* memoised builders: C20, otherwise C01)
RECURSIVE HasMemo(_)
HasMemo(rc) == CASE rc.r = "memo" -> TRUE
                 [] rc.r = "alt" -> \E i \in 1..Len(rc.alts) : HasMemo(rc.alts[i])
                 [] rc.r \in {"junk", "leak", "boom"} -> HasMemo(rc.then)
                 [] rc.r = "bind" -> HasMemo(rc.inner)
                 [] OTHER -> FALSE
ValueTag(s, o) ==
  LET cone == ConeOf(s, {s.onode[o]}, {}) IN
  IF \E m \in cone : s.def[m].k = "lhs" /\ HasMemo(s.def[m].recipe) THEN "C20"
  ELSE IF \E m \in cone : s.def[m].k = "expert" THEN "C14"
  ELSE "C01"

\* C01 (and the single-snapshot half of C07)
ObsCorrect(s) ==
  (Ok(s) /\ s.status = "idle") =>
    \A o \in 1..s.no :
       (s.ostate[o] = "inuse" /\ ExactCone(s, s.onode[o])) => ObsRead(s, o) = RefRead(s, o)

\* C03 (state half): necessary nodes are invalid exactly when the reference says dead
Invalidity(s) ==
  (Ok(s) /\ s.status = "idle") =>
    \A n \in 1..s.n : (Alive(s, n) /\ Nec(s, n)) => (s.valid[n] <=> ~DeadRef(s, n))

\* C02: every user function ran at most once this round
Count(q, Pred(_)) == Cardinality({i \in 1..Len(q) : Pred(q[i])})
AtMostOnce(s) ==
  Ok(s) => \A n \in 1..s.n : Count(s.inv, LAMBDA e : e.n = n) <= 1
\* C02: arguments are the inputs' final values (checked when the round is complete)
ArgsOf(s, n) ==
  LET d == s.def[n] IN
  CASE d.k \in {"map", "lhs"} -> <<Value(s, d.ins[1])>>
    [] d.k = "map2" -> <<Value(s, d.ins[1]), Value(s, d.ins[2])>>
    [] d.k = "fold" -> [i \in 1..Len(d.ins) |-> Value(s, d.ins[i])]
    [] OTHER -> <<>>
FinalArgs(s) ==
  (Ok(s) /\ s.status = "handlers") =>
    \A i \in 1..Len(s.inv) :
       LET e == s.inv[i] IN
       (s.valid[e.n] /\ s.def[e.n].k \in {"map", "map2", "fold", "lhs"}
          /\ \A j \in 1..Len(s.def[e.n].ins) : s.valid[s.def[e.n].ins[j]])
       => e.args = ArgsOf(s, e.n)

\* C03 (run half): no function of a superseded generation ran in this round, before or after
NoStaleRun(s) ==
  Ok(s) => \A i \in 1..Len(s.inv) :
     LET e == s.inv[i]
         b == s.scope[e.n] IN
     b # 0 => e.born = s.gen[b]

\* C05: only nodes in the cone of a live observer are computed
OnlyNeeded(s, coneBegin) ==
  (Ok(s) /\ s.status = "handlers") =>
     LET coneEnd == ConeOf(s, ObservedNodes(s, LinkedObs(s)), {}) IN
     \A i \in 1..Len(s.inv) : s.inv[i].n \in coneBegin \cup coneEnd

---------------------------------------------------------------------------
(* C19: the height a node needs, from definitions only (exact for bind-free graphs)         *)
RECURSIVE RefHeight(_, _)
RefHeight(s, n) ==
  LET d == s.def[n]
      kids == CASE d.k \in {"var", "const"} -> {}
                [] d.k = "main" -> {d.lc} \cup (IF s.rhs[d.lc] = 0 THEN {} ELSE {s.rhs[d.lc]})
                [] d.k = "expert" -> {s.edges[n][i].child : i \in 1..Len(s.edges[n])}
                [] OTHER -> SeqSet(d.ins)
      below == {RefHeight(s, c) : c \in kids} \cup (IF s.scope[n] = 0 THEN {0} ELSE {RefHeight(s, s.scope[n])})
  IN 1 + (CHOOSE h \in below : \A g \in below : h >= g)
BindFree(s) == \A n \in 1..s.n : s.def[n].k \notin {"lhs", "main", "expert"}
\* a stabilise is refused for height iff some node it has to link needs more than the limit
HeightExact(s) ==
  BindFree(s) =>
    /\ (s.panic = "panic:height") =>
          \E n \in ConeOf(s, ObservedNodes(s, LiveObs(s) \cup LinkedObs(s)), {}) : RefHeight(s, n) > s.ahhMax
    /\ (Ok(s) /\ s.status = "idle") =>
          \A n \in ConeOf(s, ObservedNodes(s, LinkedObs(s)), {}) : RefHeight(s, n) <= s.ahhMax /\ s.height[n] = RefHeight(s, n)

---------------------------------------------------------------------------
(* The spec action for one API action given as a record (recorded traces, scripted programs) *)
Field(e, f, dflt) == IF f \in DOMAIN e THEN e[f] ELSE dflt
RECURSIVE RunSteps(_)
RunSteps(s) == IF Ok(s) /\ (s.chain # 0 \/ ~HeapEmpty(s)) THEN RunSteps(StabiliseStep(s)) ELSE s
RECURSIVE RunHandlerSteps(_)
RunHandlerSteps(s) == IF Ok(s) /\ s.runq # <<>> THEN RunHandlerSteps(StabiliseHandlersStep(s)) ELSE s
\* state just before Finish (status = "handlers"), on which the round predicates are evaluated
StabiliseToHandlers(s) == RunHandlerSteps(StabiliseEndA(RunSteps(StabiliseBegin(s))))


ApplyRaw(s, e) ==
  CASE e.a = "var"      -> ApiVar(s, e.v)
    [] e.a = "const"    -> ApiConst(s, e.v)
    [] e.a = "map"      -> ApiMap(s, e.f, e["in"], Field(e, "eff", <<>>))
    [] e.a = "map2"     -> ApiMap2(s, e.f, e["in"][1], e["in"][2])
    [] e.a = "fold"     -> ApiFold(s, e.f, e.ins, e.init)
    [] e.a = "mapref"   -> ApiMapRef(s, e.f, e["in"])
    [] e.a = "mwo"      -> ApiMwo(s, e.f, e.mode, e["in"])
    [] e.a = "zip"      -> LET s1 == ApiZip(s, e["in"][1], e["in"][2]) IN ApiMap(s1, "id", s1.n, <<>>)
    [] e.a = "dependon" -> ApiDependOn(s, e["in"][1], e["in"][2])
    [] e.a = "bind"     -> ApiBind(s, e["in"], e.recipe)
    [] e.a = "memo_new" -> ApiMemoNew(s, e.f, e.over)
    [] e.a = "xjoin"    -> ApiXJoin(s, e["in"])
    [] e.a = "xcell"    -> ApiXCell(s, e["in"])
    [] e.a = "xsum"     -> ApiXSum(s, e.sel, e.ins)
    [] e.a = "cutoff"   -> ApiSetCutoff(s, e.n, [c |-> e.c])
    [] e.a = "xarm"     -> ApiXArm(s, e.n)
    [] e.a = "on_update" -> ApiOnUpdate(s, e.n)
    [] e.a = "write"    -> VarWrite(s, e.n, e.op, e.x)
    [] e.a = "observe"  -> ApiObserve(s, e.n)
    [] e.a = "observe_leaked" -> ApiObserve(s, s.leaked[e.i])
    [] e.a = "obs_clone" -> ApiObsClone(s, e.o)
    [] e.a = "obs_drop" -> ApiObsDrop(s, e.o)
    [] e.a = "disallow" -> DisallowObs(s, e.o)
    [] e.a = "subscribe" -> Subscribe(s, e.o, Field(e, "eff", <<>>))
    [] e.a = "unsubscribe" -> Unsubscribe(s, e.o, Field(e, "to", e.o), e.t)
    [] e.a = "state_unsubscribe" -> StateUnsubscribe(s, Field(e, "to", e.o), e.t)
    [] e.a = "set_max_height" -> ApiSetMaxHeight(s, e.h)
    [] e.a = "stabilise" -> StabiliseToHandlers(s)
    [] e.a = "drop"     -> ApiDropHandle(s, e.n)
    [] e.a = "drop_var" -> ApiDropVar(s, e.n)
    [] OTHER -> s

\* after a public call returns, dangling weak references are exactly the released nodes
Settle(s) == IF Ok(s) THEN [s EXCEPT !.rel = @ \cup Released(s)] ELSE s
HoldFor(a, r) ==
  IF ~Ok(r) THEN r ELSE
  CASE a.a = "var" -> HoldVar(r, r.n)
    [] a.a \in {"const", "map", "map2", "fold", "mapref", "mwo", "zip", "dependon", "bind"} -> Hold(r, r.n)
    [] a.a = "xjoin" -> Hold(r, r.n - 1)
    [] a.a \in {"xcell", "xsum"} -> Hold(Hold(r, r.n - 1), r.n)     \* the harness also keeps the controlling node
    [] OTHER -> r

---------------------------------------------------------------------------
(* C09: per-subscription automaton (Fresh -> Live -> Dead) driven by reference facts.  *)
(* Evaluated when all handlers of the round have run (status "handlers", runq empty).  *)
PrevBefore(s, o, tok) ==
  IF o <= Len(s.subsAtBegin) /\ \E i \in 1..Len(s.subsAtBegin[o]) : s.subsAtBegin[o][i].tok = tok
  THEN s.subsAtBegin[o][CHOOSE i \in 1..Len(s.subsAtBegin[o]) : s.subsAtBegin[o][i].tok = tok].prev
  ELSE "never"
\* the update subscription (o, h) must receive in this round: <<kind, value>> or <<"", NoVal>>
RefUpdate(s, o, h) ==
  LET n == s.onode[o]
      pb == PrevBefore(s, o, h.tok) IN
  IF ~(h.at < s.num) \/ pb = "Invalidated" THEN <<"", NoVal>>
  ELSE IF DeadRef(s, n) THEN <<"Invalidated", NoVal>>
  ELSE IF pb = "never" THEN (IF Value(s, n) # NoVal THEN <<"Necessary", Value(s, n)>> ELSE <<"", NoVal>>)
  ELSE IF s.lastChg[n] = s.round THEN <<"Changed", Value(s, n)>>
  ELSE <<"", NoVal>>
\* Handlers may end subscriptions or observers (their own or others') while they run, and the order
\* in which handlers run is unspecified: what was live when the handlers started MAY be delivered
\* (RefDlvMax), what is still live when they are done MUST have been delivered (RefDlvMin).
RefDlvOf(s, obsSet, subsOf(_)) ==
  {d \in UNION {{[o |-> o, t |-> subsOf(o)[i].tok, u |-> RefUpdate(s, o, subsOf(o)[i])[1],
                   v |-> RefUpdate(s, o, subsOf(o)[i])[2]] : i \in 1..Len(subsOf(o))} : o \in obsSet} : d.u # ""}
RefDlvMax(s) ==
  RefDlvOf(s, {x \in 1..Len(s.ostateH) : s.ostateH[x] = "inuse"}, LAMBDA o : s.osubsH[o])
RefDlvMin(s) ==
  LET live(o) == SelectSeq(s.osubs[o], LAMBDA h : o <= Len(s.osubsH) /\ \E i \in 1..Len(s.osubsH[o]) : s.osubsH[o][i].tok = h.tok)
  IN RefDlvOf(s, {x \in 1..Len(s.ostateH) : s.ostateH[x] = "inuse" /\ s.ostate[x] = "inuse"}, live)
RefDlv(s) == RefDlvMax(s)
DlvSet(s) == {[o |-> s.dlv[i].o, t |-> s.dlv[i].t, u |-> s.dlv[i].u, v |-> s.dlv[i].v] : i \in 1..Len(s.dlv)}
ExactUpdates(s) ==
  (Ok(s) /\ ~s.poisoned /\ s.status = "handlers" /\ s.runq = <<>>) =>
     /\ DlvSet(s) \subseteq RefDlvMax(s)
     /\ RefDlvMin(s) \subseteq DlvSet(s)
     /\ Cardinality(DlvSet(s)) = Len(s.dlv)      \* nothing delivered twice

---------------------------------------------------------------------------
(* C11: audit of the bookkeeping at quiescent points                        *)
AuditEdges(s) ==
  \A n \in 1..s.n : (Alive(s, n) /\ Nec(s, n) /\ s.valid[n]) =>
    LET ch == Children(s, n) IN
    \A i \in 1..Len(ch) :
       LET c == ch[i] IN
       /\ Len(s.pic[n]) >= i
       /\ s.pic[n][i] >= 0 /\ s.pic[n][i] < Len(s.par[c])
       /\ s.par[c][s.pic[n][i] + 1] = n
       /\ s.cip[c][s.pic[n][i] + 1] = i - 1
AuditParents(s) ==
  \A c \in 1..s.n : Alive(s, c) =>
    \A j \in 1..Len(s.par[c]) :
       LET p == s.par[c][j] IN
       /\ Alive(s, p) /\ Nec(s, p) /\ s.valid[p]
       /\ s.cip[c][j] >= 0 /\ s.cip[c][j] < Len(Children(s, p))
       /\ Children(s, p)[s.cip[c][j] + 1] = c
       /\ s.pic[p][s.cip[c][j] + 1] = j - 1
AuditHeights(s) ==
  \A n \in 1..s.n : Alive(s, n) =>
    IF Nec(s, n)
    \* (>= 0, not >= 1: an invalidated node that is still observed sits one above its scope, and the
    \* scope of a bind that has become unnecessary has height -1)
    THEN /\ s.height[n] >= 0 /\ s.height[n] <= s.ahhMax
         /\ s.height[n] > ScopeHeight(s, n)
         /\ \A i \in 1..Len(Children(s, n)) : s.height[n] > s.height[Children(s, n)[i]]
    ELSE s.par[n] = <<>> /\ ~InHeap(s, n) /\ (s.valid[n] => s.height[n] = -1)
AuditHeap(s) ==
  /\ \A n \in 1..s.n : Alive(s, n) =>
        (InHeap(s, n) <=> NeedsCompute(s, n)) /\ (InHeap(s, n) => s.hHeap[n] = s.height[n])
  /\ \A h \in DOMAIN s.rch :
        /\ \A i \in 1..Len(s.rch[h]) : s.hHeap[s.rch[h][i]] = h
        /\ \A i, j \in 1..Len(s.rch[h]) : i # j => s.rch[h][i] # s.rch[h][j]
  /\ s.rchLen = Cardinality({n \in 1..s.n : InHeap(s, n)})
  /\ \A n \in 1..s.n : InHeap(s, n) => Has(QGet(s.rch, s.hHeap[n]), n)
  /\ s.ahhLen = 0 /\ DOMAIN s.ahhQ = {} /\ \A n \in 1..s.n : s.hAhh[n] = -1
  /\ s.pinv = <<>>
AuditCounters(s) ==
  /\ s.stats.becameNec - s.stats.becameUnnec
       = Cardinality({n \in 1..s.n : Alive(s, n) /\ Nec(s, n)})
  /\ \A n \in 1..s.n : Alive(s, n) =>
       s.numH[n] = LET os == s.nobs[n]
                       RECURSIVE Sum(_)
                       Sum(t) == IF t = {} THEN 0 ELSE
                                 LET o == CHOOSE x \in t : TRUE IN Len(s.osubs[o]) + Sum(t \ {o})
                   IN Sum(os) + Len(s.nsubs[n])
  /\ \A n \in 1..s.n : s.nobs[n] = {o \in 1..s.no : s.onode[o] = n /\ s.ostate[o] \in {"inuse", "disallowed"}}
AuditStable(s) ==
  \* right after a stabilise: heap empty, every necessary valid node has a value
  (s.rchLen = 0) =>
     \A n \in 1..s.n : (Alive(s, n) /\ Nec(s, n) /\ s.valid[n]) => Value(s, n) # NoVal
AuditParts(s) ==
  (IF AuditEdges(s) THEN {} ELSE {"edges"}) \cup (IF AuditParents(s) THEN {} ELSE {"parents"})
  \cup (IF AuditHeights(s) THEN {} ELSE {"heights"}) \cup (IF AuditHeap(s) THEN {} ELSE {"heap"})
  \cup (IF AuditCounters(s) THEN {} ELSE {"counters"}) \cup (IF AuditStable(s) THEN {} ELSE {"values"})
Audit(s) ==
  (Ok(s) /\ s.status = "idle") =>
     /\ AuditEdges(s) /\ AuditParents(s) /\ AuditHeights(s) /\ AuditHeap(s)
     /\ AuditCounters(s)
=============================================================================
