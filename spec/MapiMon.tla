------------------------------ MODULE MapiMon ------------------------------
(***************************************************************************)
(* Trace checker for the random runs recorded by                           *)
(* `mapi --random N --seed S --out-trace <file>` (ndjson, one line per     *)
(* action; all instances map type x shape x map/filter x cutoff            *)
(* none/eq/fn in lock-step, each in its own engine state).  One step per   *)
(* line.  The monitor drives the MapiGraph model (intended design,         *)
(* Defects = {}) with the logged actions: that reconstructs the input, the *)
(* outer value, the observed flag, the entries at the operator's previous  *)
(* run and the consumed entries `eff` of the cutoff variants.  At every    *)
(* stabilise line it judges every logged instance entry:                   *)
(*   C16  logged output equals MapiDef(shape, filter, eff or input, w);    *)
(*        an observer error; a recorded panic (also counted as C04 by the  *)
(*        stage);                                                          *)
(*   C17  logged builder invocations are exactly the keys new since the    *)
(*        previous run, once each (CallsExact); the logged runs of the     *)
(*        per-key closures satisfy RunsQuiet; for S1 and S2 the number of  *)
(*        recomputed nodes (engine statistic) equals the model's; nothing  *)
(*        runs while unobserved;                                           *)
(*   MODEL the model itself violates one of its invariants at this scope   *)
(*        (a defect of the specification, not of the code).                *)
(* A failed predicate prints <<"JUDGE", line, json>>.  The trace is        *)
(* accepted (TRACE-DONE) iff every line was consumed.                      *)
(*                                                                         *)
(* Lines: {"a":"reset","run":r} | {"a":"set","m":[[k,v],..]}                *)
(*  | {"a":"outer","w":n} | {"a":"observe"} | {"a":"unobserve"}             *)
(*  | {"a":"stabilise","obs":[{"inst","shape","filter","cut","mt",          *)
(*        "observed","err","out","calls":[k..],"runs":[{"role","key"}],     *)
(*        "nrec":n}]}                                                       *)
(*  | {"a":"panic","inst","shape","mt","msg","during"}  (written before    *)
(*    the line of the action that panicked; the instance is dead after it) *)
(*                                                                         *)
(* Run: TRACE=<file> JAVA_TOOL_OPTIONS="-Xss1g                             *)
(*  -Dtlc2.tool.queue.IStateQueue=StateDeque" tlc -workers 1               *)
(*  -config MapiMon.cfg MapiMon.tla                                        *)
(***************************************************************************)
EXTENDS MapiGraph, Json, IOUtils

Rec == ndJsonDeserialize(IOEnv.TRACE)

VARIABLES l,     \* lines consumed
          dead   \* set of <<instance name, map type>> that panicked in this run
monvars == <<st, l, dead>>

MapTypes == {"btree", "ord"}
LoggedCuts == {"none", "eq", "fn"}
LoggedName(sh, f, c) == sh \o "." \o (IF f THEN "f" ELSE "m") \o "." \o c
\* all <<instance name, map type>> the harness runs
Logged == {<<LoggedName(sh, f, c), mt>> : sh \in Shapes, f \in Filters, c \in LoggedCuts, mt \in MapTypes}

\* [[k, v], ...] -> map
ToMap(ps) == LET D == {ps[j][1] : j \in DOMAIN ps}
             IN [k \in D |-> LET j == CHOOSE j \in DOMAIN ps : ps[j][1] = k IN ps[j][2]]

\* the model instance whose ghost state describes the logged entry x (no cutoff = PartialEq)
ModelInst(x) == [shape |-> x.shape, filter |-> x.filter, cut |-> IF x.cut = "fn" THEN "fn" ELSE "eq"]

Bad(prop, what, x) == [prop |-> prop, what |-> what, inst |-> x.inst, mt |-> x.mt]

\* judgement of one logged entry x of a stabilise line; s = model state after the stabilise
JudgeEntry(s, x) ==
  LET i == ModelInst(x) IN
  IF i \notin Insts THEN {Bad("C16", "unknown instance", x)}
  ELSE
  LET r == s.inst[i]
      want == MapSeq(MapiDef(i.shape, i.filter, IF ReadsInput(i.shape) THEN r.eff ELSE s.input, s.w))
      runs == RelevantRuns(x.runs, s.input)
  IN IF ~x.observed
     THEN IF x.calls # <<>> \/ x.runs # <<>> \/ x.nrec # 0
          THEN {Bad("C17", "work done while unobserved", x)} ELSE {}
     ELSE IF ~s.observed THEN {Bad("C16", "entry for an output that is not observed", x)}
     ELSE IF x.err # "" THEN {Bad("C16", "observer error: " \o x.err, x)}
     ELSE (IF x.out # want THEN {Bad("C16", "output differs from the definition", x)} ELSE {})
          \cup (IF ~CallsExact(r, TRUE, x.calls)
                THEN {Bad("C17", "builder not invoked exactly once for each new key", x)} ELSE {})
          \cup (IF ~RunsQuiet(i, r, TRUE, runs)
                THEN {Bad("C17", "per-key closures of unchanged keys were run", x)} ELSE {})
          \cup (IF i.shape \in CountedShapes /\ x.nrec # r.nrec
                THEN {Bad("C17", "number of recomputed nodes differs from the model (per-key nodes of unchanged keys recomputed)", x)}
                ELSE {})

JudgeStabilise(s, e, dd) ==
  UNION {JudgeEntry(s, e.obs[j]) : j \in DOMAIN e.obs}
  \cup {[prop |-> "C16", what |-> "instance without exactly one logged entry", inst |-> p[1], mt |-> p[2]] :
          p \in {p \in Logged \ dd :
                   Cardinality({j \in DOMAIN e.obs : e.obs[j].inst = p[1] /\ e.obs[j].mt = p[2]
                                                     /\ e.obs[j].observed = s.observed}) # 1}}
  \cup (IF OpCorrect(s) /\ BuilderOnlyNewKeys(s) /\ UnchangedKeysQuiet(s) THEN {}
        ELSE {[prop |-> "MODEL", what |-> "the model violates its own invariants here", inst |-> "*", mt |-> "*"]})

TraceInit == st = InitState /\ l = 0 /\ dead = {}

TraceStep ==
  /\ l < Len(Rec)
  /\ l' = l + 1
  /\ LET e == Rec[l + 1] IN
     CASE e.a = "reset"     -> st' = InitState /\ dead' = {}
       [] e.a = "set"       -> st' = SetInputOp(st, ToMap(e.m)) /\ UNCHANGED dead
       [] e.a = "outer"     -> st' = SetOuterOp(st, e.w) /\ UNCHANGED dead
       [] e.a = "observe"   -> st' = ObserveOp(st) /\ UNCHANGED dead
       [] e.a = "unobserve" -> st' = UnobserveOp(st) /\ UNCHANGED dead
       [] e.a = "stabilise" ->
            LET s2 == StabiliseOp(st)
                bad == JudgeStabilise(s2, e, dead) IN
            /\ st' = s2
            /\ UNCHANGED dead
            /\ \A b \in bad : PrintT(<<"JUDGE", l + 1, ToJson(b)>>)
       [] e.a = "panic"     ->
            /\ st' = st
            /\ dead' = dead \cup {<<e.inst, e.mt>>}
            /\ PrintT(<<"JUDGE", l + 1, ToJson([prop |-> "C16", what |-> "panic during " \o e.during \o ": " \o e.msg,
                                               inst |-> e.inst, mt |-> e.mt])>>)
       [] OTHER             -> st' = st /\ UNCHANGED dead

TraceSpec == TraceInit /\ [][TraceStep]_monvars
TraceView == <<l>>

\* every line consumed
TraceAccepted ==
  LET d == TLCGet("stats").diameter IN
  IF d - 1 = Len(Rec) THEN PrintT(<<"TRACE-DONE", Len(Rec)>>)
  ELSE PrintT(<<"TRACE-STUCK", d, Len(Rec)>>) /\ FALSE
=============================================================================
