SPECIFICATION MCSpec
CONSTANTS
  NK = 2
  NV = 2
  Ops = {"map", "filter_map", "mapi", "filter_mapi", "fold", "fold_rev", "fold_upd", "fold_upd_rev", "merge", "partition", "partition_mapi",
         "fold_sum", "fold_sum_upd", "chain_fm_map", "chain_fm_fold"}
  MaxSets = 3
  MaxTog = 3
  MaxActive = 1
  Export = TRUE
  MergeFull = FALSE
VIEW View
INVARIANT InvOpCorrect
INVARIANT InvProportional
INVARIANT InvNoSpuriousChange
ALIAS Alias
CHECK_DEADLOCK FALSE
