SPECIFICATION MonSpec
VIEW MonView
POSTCONDITION MonAccepted
CHECK_DEADLOCK FALSE
