------------------------------ MODULE IncrTrace ------------------------------
(***************************************************************************)
(* Trace validation (bindings B and C).  The Rust harness records, for     *)
(* every API action executed against the real crate, the action, the       *)
(* observations a user can make afterwards (observer reads, invocation     *)
(* log of the instrumented closures, subscription deliveries, return       *)
(* values, is_stable, var contents, panic or not) and a snapshot of the    *)
(* engine's internal state (verif hook).  This module replays the actions  *)
(* through the engine spec (Incr) and judges every observation with the    *)
(* property predicates of IncrRef.  A failed predicate is a JUDGE line     *)
(* tagged with the property id; a snapshot that differs from the spec      *)
(* state is a DIVERGE line (the code no longer follows the modelled        *)
(* design) and is not a property violation by itself.                      *)
(***************************************************************************)
EXTENDS IncrRef, Json, IOUtils, TLCExt

Rec == ndJsonDeserialize(IOEnv.TRACE)
DefaultMaxH == 128

VARIABLES st, l, nbad, ndiv, iddiv
tvars == <<st, l, nbad, ndiv, iddiv>>

---------------------------------------------------------------------------
(* Run a whole stabilise (the spec's step actions composed)                 *)
\* the spec action for one recorded API action
\* the harness keeps a handle to the node each constructor returns
Apply(s0, e) ==
  LET s == ApiClearLogs(IF Ok(s0) THEN s0 ELSE Recover(s0)) IN
  HoldFor(e, ApplyRaw(s, e))

---------------------------------------------------------------------------
(* Judging one step.  `pre` is the spec state before Finish for stabilise   *)
(* actions (status "handlers"), `post` the state after the action.          *)
Viol(prop, what) == [prop |-> prop, what |-> what]

SortedInvOf(inv) ==
  LET ns == {inv[i].n : i \in 1..Len(inv)}
      RECURSIVE Go(_)
      Go(t) == IF t = {} THEN <<>> ELSE
               LET m == CHOOSE x \in t : \A y \in t : x <= y
                   e == inv[CHOOSE i \in 1..Len(inv) : inv[i].n = m /\ \A j \in (i+1)..Len(inv) : inv[j].n # m]
               IN <<[n |-> m, args |-> e.args]>> \o Go(t \ {m})
  IN Go(ns)

ReadTag(post, o, r, w) ==
  IF post.poisoned THEN "C13"
  ELSE IF ValueTag(post, o) # "C01" THEN ValueTag(post, o)
  ELSE IF r[1] = "ok" /\ w[1] = "ok" THEN "C01"
  ELSE IF (r[1] = "err" /\ r[2] = "ObservingInvalid") \/ (w[1] = "err" /\ w[2] = "ObservingInvalid") THEN "C03"
  ELSE "C10"
JudgeReads(post, obs) ==
  LET badObs == {x \in 1..Min(post.no, Len(obs.reads)) :
                   /\ obs.reads[x][1] # "gone"
                   /\ ~(post.ostate[x] = "inuse" /\ ~ExactCone(post, post.onode[x]))
                   /\ obs.reads[x] # RefReadS(post, x)}
  IN {Viol(ReadTag(post, o, obs.reads[o], RefReadS(post, o)),
           <<"observer", o, "reads", obs.reads[o], "expected", RefReadS(post, o)>>) : o \in badObs}
     \* C07: all observers reflect ONE assignment of variable values (the one current when stabilise
     \* was called): a wrong value on a node whose cone is exact breaks that as well
     \cup {Viol("C07", <<"observer", o, "reads", obs.reads[o], "expected", RefReadS(post, o)>>) :
            o \in {x \in badObs : obs.reads[x][1] = "ok" /\ RefReadS(post, x)[1] = "ok" /\ ~post.poisoned}}
     \* a value before the observer's first stabilise / inside a stabilise is also C07's business
     \cup {Viol("C07", <<"observer", o, "reads", obs.reads[o], "expected", RefReadS(post, o)>>) :
            o \in {x \in badObs : LET w == RefReadS(post, x) IN
                                   w[1] = "err" /\ w[2] \in {"NeverStabilised", "CurrentlyStabilising"}}}

\* invocation log of the round against the reference (C02, C03, C05, C06)
\* Which nodes are recomputed in a round is fixed by the properties EXCEPT for nodes that are needed
\* when stabilise is called but no longer when it returns (a bind switched away from them): the
\* engine may reach them before or after they stop being needed, depending on its schedule among
\* equal-or-incomparable heights.  Those (opt) may run or not; everything else is exact.
\* (A node of a superseded bind generation is never optional: its bind's lhs_change is lower than
\* it and has already replaced it in any height-ordered schedule - that is C03.)
\* lim: ids above it were allocated in a round whose allocation order differs from the spec's
\* (see Aligned) and are not compared.
JudgeInv(pre, obs, coneB, lim) ==
  LET got == SelectSeq(obs.inv, LAMBDA g : g.n <= lim)
      want == SelectSeq(pre.inv, LAMBDA g : g.n <= lim)
      gotNodes == {got[i].n : i \in 1..Len(got)}
      wantNodes == {want[i].n : i \in 1..Len(want)}
      coneE == ConeOf(pre, ObservedNodes(pre, LinkedObs(pre)), {})
      cone == coneB \cup coneE
      opt == coneB \ coneE
      known(n) == n >= 1 /\ n <= pre.n
      stale(n) == known(n) /\ pre.scope[n] # 0 /\ pre.born[n] < pre.gen[pre.scope[n]]
      gotSorted == SortedInvOf(got)
  IN {Viol("C02", <<"node", n, "ran more than once in one stabilise">>) :
        n \in {m \in gotNodes : Cardinality({i \in 1..Len(got) : got[i].n = m}) > 1}}
     \cup {Viol("C03", <<"node", n, "created by a superseded run of its bind was invoked">>) :
        n \in {m \in gotNodes : stale(m)}}
     \cup {Viol("C05", <<"node", n, "invoked outside the cone of every live observer">>) :
        n \in {m \in gotNodes : known(m) /\ ~stale(m) /\ m \notin cone}}
     \cup {Viol("C06", <<"node", n, "re-invoked although no input produced an unsuppressed result">>) :
        n \in {m \in gotNodes \ wantNodes : known(m) /\ ~stale(m) /\ m \in cone /\ m \notin opt}}
     \cup {Viol("C06", <<"node", n, "not re-invoked although an input changed">>) :
        n \in (wantNodes \ gotNodes) \ opt}
     \cup {Viol("C02", <<"node", gotSorted[i].n, "ran with", gotSorted[i].args, "final inputs", ArgsOf(pre, gotSorted[i].n)>>) :
        i \in {j \in 1..Len(gotSorted) :
                 LET n == gotSorted[j].n IN
                 /\ known(n) /\ n \in wantNodes /\ n \notin opt /\ pre.valid[n]
                 /\ pre.def[n].k \in {"map", "map2", "fold", "lhs"}
                 /\ \A c \in 1..Len(pre.def[n].ins) : pre.valid[pre.def[n].ins[c]]
                 /\ gotSorted[j].args # ArgsOf(pre, n)}}

\* C20: the memoised function's underlying builder ran exactly for the keys without a live node
JudgeMemo(pre, obs) ==
  LET got == [i \in 1..Len(obs.memo) |-> [m |-> obs.memo[i].m, key |-> obs.memo[i].key]] IN
  IF got = pre.memoLog THEN {}
  ELSE {Viol("C20", <<"memoised builder invocations", got, "expected", pre.memoLog>>)}

\* C06: function cutoffs are consulted with (old, new) in that order, exactly when the spec says
\* (not compared for nodes whose recomputation is optional in this round, see JudgeInv)
JudgeCut(pre, obs, coneB, lim) ==
  LET opt == coneB \ ConeOf(pre, ObservedNodes(pre, LinkedObs(pre)), {})
      keep(n) == n <= lim /\ n \notin opt
      got == {[n |-> obs.cut[i].n, old |-> obs.cut[i].old, new |-> obs.cut[i].new] : i \in {j \in 1..Len(obs.cut) : keep(obs.cut[j].n)}}
      want == {pre.cutLog[i] : i \in {j \in 1..Len(pre.cutLog) : keep(pre.cutLog[j].n)}} IN
  IF got = want THEN {} ELSE {Viol("C06", <<"cutoff consultations (node, old, new)", got, "expected", want>>)}

\* C07: reads issued from inside user functions of the round
JudgeInReads(pre, obs) ==
  LET got == [i \in 1..Len(obs.inreads) |-> [o |-> obs.inreads[i].o, r |-> obs.inreads[i].r]] IN
  \* as multisets: the order in which functions at incomparable heights run is not promised
  IF \A x \in SeqSet(got) \cup SeqSet(pre.readLog) :
        Cardinality({i \in 1..Len(got) : got[i] = x}) = Cardinality({i \in 1..Len(pre.readLog) : pre.readLog[i] = x})
  THEN {} ELSE {Viol("C07", <<"reads inside functions", got, "expected", pre.readLog>>)}

\* when the stabilise panicked half-way (e.g. a debug assertion): what did run is still judged
JudgeInvPartial(pre, obs, coneB, lim) == {v \in JudgeInv(pre, obs, coneB, lim) : v.prop # "C06"}

JudgeVars(post, obs, lim) ==
  {Viol("C08", <<"var", v, "holds", obs.cells[v], "expected", post.cell[v]>>) :
     v \in {x \in 1..Min(lim, Min(post.n, Len(obs.cells))) :
              post.def[x].k = "var" /\ obs.cells[x][1] # "gone" /\ obs.cells[x] # post.cell[x]}}
  \* only the promised direction: pending propagation (a write to a necessary var) => not stable
  \cup (IF obs.stable /\ post.rchLen > 0
        THEN {Viol("C08", <<"is_stable() is true although a write to an observed variable is pending">>)} ELSE {})

JudgeRets(post, obs) ==
  \* as multisets: calls made from handlers of different observers come in an unspecified order
  IF \A x \in SeqSet(obs.rets) \cup SeqSet(post.retLog) :
        Cardinality({i \in 1..Len(obs.rets) : obs.rets[i] = x}) = Cardinality({i \in 1..Len(post.retLog) : post.retLog[i] = x})
  THEN {}
  ELSE {Viol(IF \E i \in 1..Len(post.retLog) : "v" \in DOMAIN post.retLog[i] THEN "C08" ELSE "C10",
             <<"returned", obs.rets, "expected", post.retLog>>)}

\* C09: deliveries of the round against the per-subscription automaton
JudgeDlv(pre, obs) ==
  LET got == {[o |-> obs.dlv[i].o, t |-> obs.dlv[i].t, u |-> obs.dlv[i].u, v |-> obs.dlv[i].v] :
                i \in 1..Len(obs.dlv)}
      wantMax == RefDlvMax(pre)
      wantMin == RefDlvMin(pre)
      touched(d) == d.o >= 1 /\ d.o <= pre.no /\ pre.onode[d.o] \in pre.obsTouched
  IN {Viol("C09", <<"unexpected delivery", d>>) : d \in got \ wantMax}
     \cup {Viol("C09", <<"missing delivery", d>>) : d \in wantMin \ got}
     \* C10: the deliveries that went wrong belong to a node one of whose observers was subscribed /
     \* unsubscribed / disallowed / dropped since the last stabilise: that call affected another one
     \cup {Viol("C10", <<"delivery affected by a lifecycle call on another observer/subscription of the node", d>>) :
            d \in {x \in (got \ wantMax) \cup (wantMin \ got) : touched(x)}}
     \cup (IF Cardinality(got) # Len(obs.dlv) THEN {Viol("C09", <<"delivered twice", obs.dlv>>)} ELSE {})
     \cup {Viol("C09", <<"delivered value differs from observer read", obs.dlv[i]>>) :
            i \in {j \in 1..Len(obs.dlv) :
                     /\ obs.dlv[j].u # "Invalidated"
                     /\ obs.dlv[j].rd[1] # "gone"
                     /\ obs.dlv[j].rd # <<"ok", obs.dlv[j].v>>}}

\* Panics: none where the spec says ok (C04); where the spec says a misuse/limit panic is due,
\* the code must panic too and name the cause (C19).
ModelClass(post) ==
  CASE post.panic = "panic:height" -> "height"
    [] post.panic = "panic:cyclic" -> "cyclic"
    [] post.panic = "panic:status" -> "status"
    [] post.panic = "panic:user"   -> "user"
    [] post.panic = "panic:max_height_seen" -> "max_height_seen"
    [] post.panic = "panic:assert_foreign" -> "foreign"
    [] OTHER -> "other"
JudgePanic(post, obs) ==
  IF obs.panic # "" /\ Ok(post)
  THEN {Viol("C04", <<"panic", obs.panic>>)}
       \cup (IF obs.pclass \in {"height", "cyclic", "max_height_seen"}
             THEN {Viol("C19", <<"admissible call rejected", obs.panic>>)} ELSE {})
  ELSE IF obs.panic = "" /\ ~Ok(post) /\ ModelClass(post) \in {"height", "cyclic", "status", "max_height_seen", "foreign"}
       \* a state poisoned by an earlier caught panic must refuse to stabilise again: that is C13
       THEN {Viol(IF post.poisoned THEN "C13" ELSE "C19", <<"no panic although", post.panic, "is due">>)}
  ELSE IF obs.panic # "" /\ ~Ok(post) /\ ModelClass(post) \in {"height", "cyclic"}
          /\ obs.pclass # ModelClass(post)
       THEN {Viol("C19", <<"panic does not name the cause", post.panic, obs.panic>>)}
  ELSE {}
JudgeDropAll(e) ==
  IF e.obs.panic # ""
  THEN {Viol(IF ~e.after_panic THEN "C12" ELSE IF e.user_panic THEN "C13" ELSE "C19",
             <<"dropping everything panicked", IF e.after_panic THEN "after a caught panic" ELSE "after a clean run", e.obs.panic>>)}
  ELSE {}

---------------------------------------------------------------------------
(* C11: the audit evaluated on the state RECONSTRUCTED from the snapshot -   *)
(* from the snapshot alone (its own kinds, edges, index arrays, heights,    *)
(* heap, counters), never from the spec's state: the judgement does not     *)
(* depend on the engine having made the same scheduling choices as the spec *)
SnapState(sn) ==
  LET N == Len(sn.valid) IN
  [n |-> N, def |-> sn.def, valid |-> sn.valid, val |-> sn.val,
   recAt |-> sn.recat, chgAt |-> sn.chgat, setAt |-> sn.setat,
   height |-> sn.h, hHeap |-> sn.hrch, hAhh |-> sn.hahh,
   par |-> sn.par, cip |-> sn.cip, pic |-> sn.pic,
   scope |-> [i \in 1..N |-> Max(sn.scope[i], 0)],
   force |-> sn.force, numH |-> sn.numh,
   nsubs |-> [i \in 1..N |-> [j \in 1..sn.nnh[i] |-> 0]],
   nobs |-> [i \in 1..N |-> SeqSet(sn.nobs[i])],
   rhs |-> sn.rhs,
   edges |-> [i \in 1..N |-> [j \in 1..Len(sn.xedges[i]) |-> [child |-> sn.xedges[i][j]]]],
   fstale |-> sn.fstale,
   rel |-> SeqSet(sn.rel),
   rch |-> [h \in {sn.rch[i][1] : i \in 1..Len(sn.rch)} |->
              sn.rch[CHOOSE i \in 1..Len(sn.rch) : sn.rch[i][1] = h][2]],
   rchLen |-> sn.rchlen, rchLower |-> sn.rchlower, rchMax |-> sn.rchmax,
   ahhLen |-> sn.ahhlen, ahhMax |-> sn.ahhmax, ahhSeen |-> sn.ahhseen, ahhQ |-> QEmpty,
   pinv |-> sn.pinv,
   no |-> Len(sn.ostate), ostate |-> sn.ostate, onode |-> sn.onode,
   osubs |-> [o \in 1..Len(sn.ohandlers) |-> [j \in 1..sn.ohandlers[o] |-> 0]],
   stats |-> [becameNec |-> sn.becamenec, becameUnnec |-> sn.becameunnec],
   status |-> sn.status, num |-> sn.num, panic |-> ""]

JudgeAudit(post, obs) ==
  IF obs.panic # "" \/ ~Ok(post) \/ obs.snap.status # "idle" THEN {} ELSE
  {Viol("C11", <<"audit failed", p>>) : p \in AuditParts(SnapState(obs.snap))}

\* C12: released nodes = nodes no strong reference reaches
\* (the property promises release "after one stabilise has run": leaks are judged right after a
\* stabilise only; a node freed while still referenced is wrong at any time)
JudgeOwn(post, obs, afterStabilise, lim) ==
  IF obs.panic # "" \/ ~Ok(post) \/ post.poisoned \/ post.status # "idle" THEN {} ELSE
  LET rel == SeqSet(obs.snap.rel) \cap (1..Min(lim, post.n))
      want == Released(post) \cap (1..lim) IN
  (IF afterStabilise
   THEN {Viol("C12", <<"node", n, "is still alive although nothing references it">>) : n \in want \ rel}
   ELSE {})
  \cup {Viol("C12", <<"node", n, "was released although it is still referenced">>) : n \in rel \ want}

\* binding C: the snapshot must equal the spec state on the engine's own variables
Diverge(post, sn, order, ndlv, gotNdlv) ==
  LET N == Min(post.n, Len(sn.valid))
      live == {n \in 1..N : n \notin SeqSet(sn.rel)}
      D(name, ok) == IF ok THEN {} ELSE {name}
  IN IF ~Ok(post) THEN {} ELSE
     D("n", post.n = Len(sn.valid))
     \cup D("valid", \A n \in live : post.valid[n] = sn.valid[n])
     \cup D("height", \A n \in live : post.height[n] = sn.h[n])
     \cup D("hHeap", \A n \in live : post.hHeap[n] = sn.hrch[n])
     \cup D("par", \A n \in live : post.par[n] = sn.par[n])
     \cup D("cip", \A n \in live : post.cip[n] = sn.cip[n])
     \cup D("pic", \A n \in live : post.pic[n] = sn.pic[n])
     \cup D("recAt", \A n \in live : post.recAt[n] = sn.recat[n])
     \cup D("chgAt", \A n \in live : post.chgAt[n] = sn.chgat[n])
     \cup D("numH", \A n \in live : post.numH[n] = sn.numh[n])
     \cup D("nobs", \A n \in live : post.nobs[n] = SeqSet(sn.nobs[n]))
     \cup D("rhs", \A n \in live : post.rhs[n] = sn.rhs[n])
     \cup D("val", \A n \in live : (sn.val[n][1] = "other" \/ post.val[n] = sn.val[n]))
     \cup D("setAt", \A n \in live : post.setAt[n] = sn.setat[n])
     \cup D("rch", \A i \in 1..Len(sn.rch) : QGet(post.rch, sn.rch[i][1]) = sn.rch[i][2])
     \cup D("rchLen", post.rchLen = sn.rchlen)
     \cup D("rchLower", post.rchLower = sn.rchlower)
     \cup D("ahhSeen", post.ahhSeen = sn.ahhseen)
     \cup D("num", post.num = sn.num)
     \cup D("ostate", \A o \in 1..Min(post.no, Len(sn.ostate)) :
                         (sn.ostate[o] = "released" \/ post.ostate[o] = sn.ostate[o]))
     \cup D("stats", /\ post.stats.created = sn.ncreated /\ post.stats.changed = sn.changed
                     /\ post.stats.recomputed = sn.recomputed /\ post.stats.invalidated = sn.invalidated
                     /\ post.stats.becameNec = sn.becamenec /\ post.stats.becameUnnec = sn.becameunnec)
     \cup D("nsubs", \A n \in live : Len(post.nsubs[n]) = sn.nnh[n])
     \* deliveries to node-level on_update handlers of the round, as a multiset
     \cup D("ndlv", \A x \in SeqSet(ndlv) \cup SeqSet(gotNdlv) :
                       Cardinality({i \in 1..Len(ndlv) : ndlv[i] = x}) = Cardinality({i \in 1..Len(gotNdlv) : gotNdlv[i] = x}))
     \cup D("order", "order" \notin DOMAIN sn \/ sn.order = <<>> \/ order = sn.order)

---------------------------------------------------------------------------
(* Node ids are allocation order.  An engine that makes other (legitimate)  *)
(* scheduling choices than the spec may run two bind closures of one round  *)
(* in the other order, or run a closure the spec did not need to run: its   *)
(* ids then differ from the spec's from that round on.  Aligned says they   *)
(* still coincide (same count, every node created in the same bind scope).  *)
(* In the round where they stop coinciding only ids that existed before the *)
(* round are compared; the rest of that run is not interpreted (a NOTE).    *)
\* nodes made by a memoised function (they sit in its table): C20 says which scope they belong to, so
\* a different scope on such a node is a finding of its own (JudgeMemoScope), not a re-numbering
MemoMade(post) == UNION {{post.memos[m].table[i].node : i \in 1..Len(post.memos[m].table)} : m \in 1..Len(post.memos)}
WrongScope(post, sn) ==
  {n \in 1..Min(post.n, Len(sn.valid)) : n \notin SeqSet(sn.rel) /\ sn.scope[n] # -1 /\ sn.scope[n] # post.scope[n]}
Aligned(post, sn) ==
  /\ Len(sn.valid) = post.n
  /\ WrongScope(post, sn) \subseteq MemoMade(post)
JudgeMemoScope(post, obs) ==
  IF Len(obs.snap.valid) # post.n THEN {} ELSE
  {Viol("C20", <<"node", n, "made by the memoised function belongs to scope", obs.snap.scope[n],
                 "instead of the scope weak_memoize_fn was called in", post.scope[n]>>) :
     n \in WrongScope(post, obs.snap) \cap MemoMade(post)}

TraceInit == st = InitState(DefaultMaxH) /\ l = 1 /\ nbad = 0 /\ ndiv = 0 /\ iddiv = FALSE

TraceStep ==
  /\ l <= Len(Rec)
  /\ LET e == Rec[l] IN
     IF e.a = "reset"
     THEN /\ st' = InitState(Field(e, "maxh", DefaultMaxH))
          /\ iddiv' = FALSE
          /\ UNCHANGED <<nbad, ndiv>>
          /\ PrintT(<<"RUN", Field(e, "run", 0), l>>)     \* heartbeat: which run is being judged
     ELSE IF e.a = "drop_all"
     THEN /\ st' = st
          /\ nbad' = nbad + Cardinality(JudgeDropAll(e))
          /\ UNCHANGED <<ndiv, iddiv>>
          /\ (JudgeDropAll(e) # {} => PrintT(<<"JUDGE", l, Field(e, "run", 0), ToJson(JudgeDropAll(e))>>))
     ELSE IF iddiv
     THEN \* ids no longer correspond: only what needs no correspondence is still judged
          /\ st' = st
          /\ iddiv' = iddiv
          /\ LET bad == IF e.obs.panic = "" THEN JudgeAudit(st, e.obs) ELSE {} IN
             /\ nbad' = nbad + Cardinality(bad)
             /\ (bad # {} => PrintT(<<"JUDGE", l, Field(e, "run", 0), ToJson(bad)>>))
          /\ UNCHANGED ndiv
     ELSE LET coneB == IF e.a = "stabilise"
                       THEN ConeOf(st, ObservedNodes(st, LiveObs(st)), {}) ELSE {}
              pre == Apply(st, e)
              post == IF e.a = "stabilise" THEN StabiliseFinish(pre) ELSE pre
              obs == e.obs
              aligned == obs.panic # "" \/ ~Ok(post) \/ Aligned(post, obs.snap)
              lim == IF aligned THEN post.n ELSE st.n
              bad == JudgePanic(post, obs)
                     \cup (IF obs.panic # "" /\ ~Ok(post) THEN JudgeReads(Recover(post), obs) ELSE {})
                     \cup (IF obs.panic # "" /\ Ok(post) /\ e.a = "stabilise" THEN JudgeInvPartial(pre, obs, coneB, lim) ELSE {})
                     \cup (IF obs.panic = "" /\ Ok(post)
                           THEN JudgeReads(post, obs) \cup JudgeVars(post, obs, lim) \cup JudgeRets(post, obs)
                                \cup (IF e.a = "stabilise" THEN JudgeInv(pre, obs, coneB, lim) \cup JudgeDlv(pre, obs) \cup JudgeInReads(pre, obs) \cup JudgeMemo(pre, obs) \cup JudgeCut(pre, obs, coneB, lim) ELSE {})
                                \cup JudgeAudit(post, obs) \cup JudgeOwn(post, obs, e.a = "stabilise", lim)
                                \cup JudgeMemoScope(post, obs)
                           ELSE {})
              div == IF ~aligned THEN {"ids"}
                     ELSE IF obs.panic = "" /\ Ok(post) THEN Diverge(post, obs.snap, IF e.a = "stabilise" THEN pre.order ELSE <<>>,
                                                                  IF e.a = "stabilise" THEN pre.ndlv ELSE <<>>,
                                                                  IF e.a = "stabilise" /\ "ndlv" \in DOMAIN obs THEN obs.ndlv ELSE <<>>)
                     ELSE IF obs.panic = "" /\ ~Ok(post) THEN {"model_panics:" \o post.panic} ELSE {}
          IN /\ st' = Settle(post)
             /\ iddiv' = ~aligned
             /\ nbad' = nbad + Cardinality(bad)
             /\ ndiv' = ndiv + Cardinality(div)
             /\ (bad # {} => PrintT(<<"JUDGE", l, Field(e, "run", 0), ToJson(bad)>>))
             /\ (div # {} => PrintT(<<"DIVERGE", l, Field(e, "run", 0), ToJson(div)>>))
  /\ l' = l + 1

TraceSpec == TraceInit /\ [][TraceStep]_tvars
TraceView == <<l>>
\* every line consumed
TraceAccepted ==
  LET d == TLCGet("stats").diameter IN
  IF d - 1 = Len(Rec) THEN PrintT(<<"TRACE-DONE", Len(Rec)>>)
  ELSE PrintT(<<"TRACE-STUCK", d, Len(Rec)>>) /\ FALSE
=============================================================================
