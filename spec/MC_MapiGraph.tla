--------------------------- MODULE MC_MapiGraph ---------------------------
(***************************************************************************)
(* Bounded exploration of MapiGraph: at most MaxEdits edits (SetInput of   *)
(* any map over the keys, or SetOuter of a different value), at most       *)
(* MaxTog Observe/Unobserve actions, and Stabilise whenever something      *)
(* happened since the last one.  All instances [shape, filter, cut] run in *)
(* lock-step.  `hist` (kept out of the fingerprint by VIEW) records the    *)
(* actions; every Stabilise entry carries, per instance name               *)
(* "<shape>.<m|f>.<eq|fn>", the expected output map (sorted sequence of    *)
(* <<k, v>> pairs), the expected builder invocations (keys) and the        *)
(* expected runs of the user's per-key closures ([role, key]) of that      *)
(* round and, for S1 and S2, the expected number of node recomputations.   *)
(* One REPLAY line per maximal behaviour (all edits used, stabilised);     *)
(* harness/src/bin/mapi.rs replays them on the real code.                  *)
(*                                                                         *)
(* MC_MapiGraph_quick.cfg / MC_MapiGraph.cfg check the intended design     *)
(* (Defects = {}).  To see what TLC says about the code as written, copy a *)
(* cfg with  Defects = {"weak_unwrap"}  (InvOpCorrect is violated by a     *)
(* builder that ignores its input, shapes S4 and S5) or                    *)
(* Defects = {"no_link_cb"}  (the engine before its repair: shape S5).     *)
(***************************************************************************)
EXTENDS MapiGraph, Json

CONSTANTS MaxEdits, MaxTog, Export

VARIABLES hist, nedits, ntog
mcvars == <<st, hist, nedits, ntog>>

Names == {Name(i) : i \in Insts}
InstOf(n) == CHOOSE i \in Insts : Name(i) = n

Expect(s) ==
  IF ~s.observed THEN <<>>
  ELSE [n \in Names |->
          LET r == s.inst[InstOf(n)] IN
          IF r.panicked THEN [panic |-> TRUE]
          ELSE IF InstOf(n).shape \in CountedShapes
          THEN [out |-> MapSeq(r.resVal), calls |-> r.calls, runs |-> r.runs, nrec |-> r.nrec]
          ELSE [out |-> MapSeq(r.resVal), calls |-> r.calls, runs |-> r.runs]]

MCInit == /\ st = InitState
          /\ hist = <<>>
          /\ nedits = 0
          /\ ntog = 0

MCSet == /\ nedits < MaxEdits
         /\ \E m \in Maps :
               /\ st' = SetInputOp(st, m)
               /\ hist' = Append(hist, [a |-> "set", m |-> MapSeq(m)])
         /\ nedits' = nedits + 1
         /\ UNCHANGED ntog

MCOuter == /\ nedits < MaxEdits
           /\ \E w \in Outers \ {st.w} :
                 /\ st' = SetOuterOp(st, w)
                 /\ hist' = Append(hist, [a |-> "outer", w |-> w])
           /\ nedits' = nedits + 1
           /\ UNCHANGED ntog

MCObserve == /\ ntog < MaxTog
             /\ ~st.observed
             /\ st' = ObserveOp(st)
             /\ hist' = Append(hist, [a |-> "observe"])
             /\ ntog' = ntog + 1
             /\ UNCHANGED nedits

MCUnobserve == /\ ntog < MaxTog
               /\ st.observed
               /\ st' = UnobserveOp(st)
               /\ hist' = Append(hist, [a |-> "unobserve"])
               /\ ntog' = ntog + 1
               /\ UNCHANGED nedits

MCStabilise == /\ ~st.clean
               /\ st' = StabiliseOp(st)
               /\ hist' = Append(hist, [a |-> "stabilise", observed |-> st.observed, expect |-> Expect(st')])
               /\ UNCHANGED <<nedits, ntog>>
               \* behaviour export (see below)
               /\ (Export /\ nedits = MaxEdits) => PrintT(<<"REPLAY", ToJson(hist')>>)

MCNext == MCSet \/ MCOuter \/ MCObserve \/ MCUnobserve \/ MCStabilise
MCSpec == MCInit /\ [][MCNext]_mcvars

View == <<st, nedits, ntog>>

\* Behaviour export: one REPLAY line per maximal behaviour, i.e. per Stabilise transition taken
\* after the last edit.  It is printed from the action (not from an invariant on the
\* successor) because VIEW merges states with different histories: the action sees the
\* history of every distinct predecessor.  The ghost fields (last, calls, runs) keep
\* predecessors with different previous inputs distinct.

Alias == [input |-> st.input, w |-> st.w, observed |-> st.observed, clean |-> st.clean,
          inst |-> [n \in Names |-> st.inst[InstOf(n)]],
          histJson |-> ToJson(hist)]
=============================================================================
