------------------------------ MODULE SymDiff ------------------------------
(***************************************************************************)
(* C18.  Transcription of the iterator state machines of                   *)
(* incremental-map/src/symmetric_fold.rs                                   *)
(*   MergeOnce, MergeOnceWith, SymmetricDiff, SymmetricDiffOwned           *)
(* and of the use made of them by merge_shared_impl / incr_merge           *)
(* (btree_map.rs, im_rc.rs), together with the set-level definitions they  *)
(* are supposed to implement (DiffDef, MergeDef, CallsDef, OutDef).        *)
(*                                                                         *)
(* Every call of next() on the outermost iterator is ONE action.  The      *)
(* state of an iterator is: the two Peekable inputs (as the sequence of    *)
(* items not yet consumed: peek() is Head, next() is Head + Tail, both     *)
(* are None on the empty sequence, which is how the fused slice/BTreeMap   *)
(* iterators and Peekable over them behave) and fused : Option<bool>       *)
(* ("None", "True", "False").                                              *)
(*                                                                         *)
(* Maps are strictly key-ascending sequences of <<key, value>>; values     *)
(* are naturals, Absent = -1 encodes Option::None of a lookup.             *)
(* The module has no constants: the universe of inputs is chosen by the    *)
(* model (MC_SymDiff) through InitDiff / InitMerge, and SymDiffMon         *)
(* instantiates the module only for the definitions.                       *)
(***************************************************************************)
EXTENDS Integers, Sequences, FiniteSets

VARIABLES
  mk,     \* which machine: "mo" | "sd" | "sdo" | "ms"
  inp,    \* the inputs: <<m1, m2>> or <<oldL, newL, oldR, newR>>
  a, b,   \* unconsumed items of the two Peekable inputs
  fused,  \* "None" | "True" | "False"
  out,    \* items returned by next() so far (in the machine's own item format)
  acc,    \* "ms" only: <<output map folded so far, log of calls of the user closure>>
  done,   \* next() has returned None
  n       \* number of next() calls so far

vars == <<mk, inp, a, b, fused, out, acc, done, n>>

Absent == -1
None == <<>>
Some(x) == <<x>>

-----------------------------------------------------------------------------
(* Maps as sorted association sequences *)
KeysOf(m) == { m[i][1] : i \in DOMAIN m }
Get(m, k) == IF \E i \in DOMAIN m : m[i][1] = k
             THEN m[CHOOSE i \in DOMAIN m : m[i][1] = k][2]
             ELSE Absent
IsMap(m) == \A i, j \in DOMAIN m : i < j => m[i][1] < m[j][1]

RECURSIVE KeySeq(_)
KeySeq(m) == IF m = <<>> THEN <<>> ELSE <<Head(m)[1]>> \o KeySeq(Tail(m))

MapRemove(m, k) == SelectSeq(m, LAMBDA p : p[1] # k)
MapInsert(m, k, v) == SelectSeq(m, LAMBDA p : p[1] < k) \o <<<<k, v>>>> \o SelectSeq(m, LAMBDA p : p[1] > k)

RECURSIVE SortedSeq(_)
SortedSeq(S) == IF S = {} THEN <<>>
                ELSE LET x == CHOOSE x \in S : \A y \in S : x <= y
                     IN <<x>> \o SortedSeq(S \ {x})

IsPrefix(s, t) == Len(s) <= Len(t) /\ SubSeq(t, 1, Len(s)) = s
StrictlyAscending(ks) == \A i, j \in DOMAIN ks : i < j => ks[i] < ks[j]

-----------------------------------------------------------------------------
(* DEFINITIONS (what the code is supposed to compute)                       *)

(* Symmetric difference of two maps: ascending sequence of                  *)
(* <<key, "Left"|"Right"|"Unequal", old, new>>, Absent for the missing side *)
DiffElem(m1, m2, k) ==
  LET o == Get(m1, k)  nw == Get(m2, k) IN
  IF nw = Absent THEN <<k, "Left", o, Absent>>
  ELSE IF o = Absent THEN <<k, "Right", Absent, nw>>
  ELSE <<k, "Unequal", o, nw>>

DiffKeys(m1, m2) == { k \in KeysOf(m1) \cup KeysOf(m2) : Get(m1, k) # Get(m2, k) }

RECURSIVE DiffOver(_, _, _)
DiffOver(ks, m1, m2) == IF ks = <<>> THEN <<>>
                        ELSE <<DiffElem(m1, m2, Head(ks))>> \o DiffOver(Tail(ks), m1, m2)

DiffDef(m1, m2) == DiffOver(SortedSeq(DiffKeys(m1, m2)), m1, m2)

(* Ordered merge of two key-sorted streams (key of an item x is x[1]):      *)
(* <<"Left", x>> | <<"Right", y>> | <<"Both", x, y>> in ascending key order *)
StreamKeys(s) == { s[i][1] : i \in DOMAIN s }
ItemAt(s, k) == s[CHOOSE i \in DOMAIN s : s[i][1] = k]
MergeElem(s1, s2, k) ==
  IF k \in StreamKeys(s1) /\ k \in StreamKeys(s2) THEN <<"Both", ItemAt(s1, k), ItemAt(s2, k)>>
  ELSE IF k \in StreamKeys(s1) THEN <<"Left", ItemAt(s1, k)>>
  ELSE <<"Right", ItemAt(s2, k)>>

RECURSIVE MergeOver(_, _, _)
MergeOver(ks, s1, s2) == IF ks = <<>> THEN <<>>
                         ELSE <<MergeElem(s1, s2, Head(ks))>> \o MergeOver(Tail(ks), s1, s2)

MergeDef(s1, s2) == MergeOver(SortedSeq(StreamKeys(s1) \cup StreamKeys(s2)), s1, s2)

MergeKey(e) == e[2][1]

(* incr_merge: value handed to / produced for one key.  The user closure    *)
(* is modelled as  |_, m| Some(m.cloned())  so the output value is the      *)
(* MergeElement itself: <<"Left", l, Absent>> etc.                          *)
CallVal(l, r) == IF l # Absent /\ r # Absent THEN <<"Both", l, r>>
                 ELSE IF l # Absent THEN <<"Left", l, Absent>>
                 ELSE <<"Right", Absent, r>>

RECURSIVE OutOver(_, _, _)
OutOver(ks, L, R) == IF ks = <<>> THEN <<>>
                     ELSE <<<<Head(ks), CallVal(Get(L, Head(ks)), Get(R, Head(ks)))>>>> \o OutOver(Tail(ks), L, R)
(* the key-wise merge of two maps *)
OutDef(L, R) == OutOver(SortedSeq(KeysOf(L) \cup KeysOf(R)), L, R)

RECURSIVE CallsOver(_, _, _)
CallsOver(ks, L, R) ==
  IF ks = <<>> THEN <<>>
  ELSE LET k == Head(ks) IN
       (IF Get(L, k) = Absent /\ Get(R, k) = Absent THEN <<>>
        ELSE <<<<k>> \o CallVal(Get(L, k), Get(R, k))>>) \o CallsOver(Tail(ks), L, R)
(* the user closure runs once, in key order, for exactly the keys that      *)
(* changed in either input and are still present in one of the new maps     *)
CallsDef(oL, nL, oR, nR) == CallsOver(SortedSeq(DiffKeys(oL, nL) \cup DiffKeys(oR, nR)), nL, nR)

-----------------------------------------------------------------------------
(* MACHINES.  A machine state is a record [a, b, fused]; XNext(s) returns   *)
(* [s |-> state after the call, item |-> None or Some(item)].               *)

PopItem(q) == IF q = <<>> THEN None ELSE Some(Head(q))   \* value of it.next()
PopRest(q) == IF q = <<>> THEN <<>> ELSE Tail(q)         \* it after it.next()
Peek(q) == q # <<>>                                      \* it.peek().is_some()

(* ---- MergeOnce::next (items are keys, PartialOrd = integer order) ---- *)
MONext(s) ==
  LET sel == \* <<return None, less_than, both, fused after the match>>
        IF s.fused # "None" THEN <<FALSE, s.fused = "True", FALSE, s.fused>>        \* Some(lt) => (lt, false)
        ELSE IF Peek(s.a) /\ Peek(s.b)
             THEN <<FALSE, Head(s.a) <= Head(s.b), Head(s.a) = Head(s.b), "None">>  \* (a <= b, a == b)
        ELSE IF Peek(s.a) THEN <<FALSE, TRUE, FALSE, "True">>                       \* (Some, None)
        ELSE IF Peek(s.b) THEN <<FALSE, FALSE, FALSE, "False">>                     \* (None, Some)
        ELSE <<TRUE, FALSE, FALSE, "None">>                                         \* (None, None) => return None
      lt == sel[2]  both == sel[3]
  IN IF sel[1] THEN [s |-> s, item |-> None]
     ELSE IF lt
     THEN [s |-> [a |-> PopRest(s.a), b |-> IF both THEN PopRest(s.b) ELSE s.b, fused |-> sel[4]],
           item |-> PopItem(s.a)]
     ELSE [s |-> [a |-> IF both THEN PopRest(s.a) ELSE s.a, b |-> PopRest(s.b), fused |-> sel[4]],
           item |-> PopItem(s.b)]

(* ---- MergeOnceWith::next, comparator |(k,_),(k2,_)| k.cmp(k2) ---- *)
Cmp(x, y) == IF x < y THEN "Less" ELSE IF x > y THEN "Greater" ELSE "Equal"
MOWNext(s) ==
  LET sel == \* <<return None, ordering, fused after the match>>
        IF s.fused = "True" THEN <<FALSE, "Less", s.fused>>
        ELSE IF s.fused = "False" THEN <<FALSE, "Greater", s.fused>>
        ELSE IF Peek(s.a) /\ Peek(s.b) THEN <<FALSE, Cmp(Head(s.a)[1], Head(s.b)[1]), "None">>
        ELSE IF Peek(s.a) THEN <<FALSE, "Less", "True">>
        ELSE IF Peek(s.b) THEN <<FALSE, "Greater", "False">>
        ELSE <<TRUE, "Equal", "None">>
      ord == sel[2]
  IN IF sel[1] THEN [s |-> s, item |-> None]
     ELSE IF ord = "Equal"
     THEN \* a.next().zip(b.next()).map(Both): both advance, None if either is None
          [s |-> [a |-> PopRest(s.a), b |-> PopRest(s.b), fused |-> sel[3]],
           item |-> IF Peek(s.a) /\ Peek(s.b) THEN Some(<<"Both", Head(s.a), Head(s.b)>>) ELSE None]
     ELSE IF ord = "Less"
     THEN [s |-> [a |-> PopRest(s.a), b |-> s.b, fused |-> sel[3]],
           item |-> IF Peek(s.a) THEN Some(<<"Left", Head(s.a)>>) ELSE None]
     ELSE [s |-> [a |-> s.a, b |-> PopRest(s.b), fused |-> sel[3]],
           item |-> IF Peek(s.b) THEN Some(<<"Right", Head(s.b)>>) ELSE None]

(* ---- SymmetricDiff::next: loop { key = keys.next()?; lookups } ---- *)
(* item: <<key, <<"Unequal", x, y>> | <<"Left", x>> | <<"Right", y>> >>   *)
RECURSIVE SDNext(_, _, _)
SDNext(s, m1, m2) ==
  LET r == MONext(s) IN
  IF r.item = None THEN [s |-> r.s, item |-> None]                       \* `?`
  ELSE LET key == r.item[1]
           sv == Get(m1, key)      \* self_.get(key)
           ov == Get(m2, key)      \* other.get(key)
       IN IF sv # Absent /\ ov # Absent /\ sv # ov THEN [s |-> r.s, item |-> Some(<<key, <<"Unequal", sv, ov>>>>)]
          ELSE IF sv # Absent /\ ov # Absent THEN SDNext(r.s, m1, m2)    \* continue
          ELSE IF sv # Absent THEN [s |-> r.s, item |-> Some(<<key, <<"Left", sv>>>>)]
          ELSE IF ov # Absent THEN [s |-> r.s, item |-> Some(<<key, <<"Right", ov>>>>)]
          ELSE [s |-> r.s, item |-> None]                                \* _ => return None

(* ---- SymmetricDiffOwned::next (inputs are sequences of <<k, v>>) ---- *)
(* item: <<"Unequal", <<k,v>>, <<k,v2>>>> | <<"Left", <<k,v>>>> | <<"Right", <<k,v>>>> *)
SDOEmit(s, lt) ==
  IF lt THEN [s |-> [s EXCEPT !.a = PopRest(s.a)],
              item |-> IF Peek(s.a) THEN Some(<<"Left", Head(s.a)>>) ELSE None]
  ELSE [s |-> [s EXCEPT !.b = PopRest(s.b)],
        item |-> IF Peek(s.b) THEN Some(<<"Right", Head(s.b)>>) ELSE None]
RECURSIVE SDONext(_)
SDONext(s) ==
  IF s.fused # "None" THEN SDOEmit(s, s.fused = "True")                  \* Some(lt) => break lt
  ELSE IF Peek(s.a) /\ Peek(s.b)
       THEN LET ka == Head(s.a)[1]  kb == Head(s.b)[1] IN
            IF ka < kb THEN SDOEmit(s, TRUE)
            ELSE IF ka > kb THEN SDOEmit(s, FALSE)
            ELSE LET unequal == Head(s.a)[2] # Head(s.b)[2]
                     s2 == [s EXCEPT !.a = Tail(s.a), !.b = Tail(s.b)]
                 IN IF unequal THEN [s |-> s2, item |-> Some(<<"Unequal", Head(s.a), Head(s.b)>>)]
                    ELSE SDONext(s2)                                     \* continue
  ELSE IF Peek(s.a) THEN SDOEmit([s EXCEPT !.fused = "True"], TRUE)
  ELSE IF Peek(s.b) THEN SDOEmit([s EXCEPT !.fused = "False"], FALSE)
  ELSE [s |-> s, item |-> None]

(* Items of the diff machines in the format of DiffDef *)
NormSD(x) == LET k == x[1]  e == x[2] IN
  IF e[1] = "Unequal" THEN <<k, "Unequal", e[2], e[3]>>
  ELSE IF e[1] = "Left" THEN <<k, "Left", e[2], Absent>>
  ELSE <<k, "Right", Absent, e[2]>>
NormSDO(x) ==
  IF x[1] = "Unequal" THEN <<x[2][1], "Unequal", x[2][2], x[3][2]>>
  ELSE IF x[1] = "Left" THEN <<x[2][1], "Left", x[2][2], Absent>>
  ELSE <<x[2][1], "Right", Absent, x[2][2]>>
RECURSIVE NormSeqSD(_)
NormSeqSD(s) == IF s = <<>> THEN <<>> ELSE <<NormSD(Head(s))>> \o NormSeqSD(Tail(s))
RECURSIVE NormSeqSDO(_)
NormSeqSDO(s) == IF s = <<>> THEN <<>> ELSE <<NormSDO(Head(s))>> \o NormSeqSDO(Tail(s))

(* The whole (lazy) SymmetricDiff stream, by iterating next() to None;      *)
(* this is what merge_shared_impl feeds to MergeOnceWith.                   *)
RECURSIVE SDRunFrom(_, _, _)
SDRunFrom(s, m1, m2) ==
  LET r == SDNext(s, m1, m2) IN
  IF r.item = None THEN <<>> ELSE <<NormSD(r.item[1])>> \o SDRunFrom(r.s, m1, m2)
SDRun(m1, m2) == SDRunFrom([a |-> KeySeq(m1), b |-> KeySeq(m2), fused |-> "None"], m1, m2)

(* ---- the fold closure of merge_shared_impl + incr_merge ---- *)
(* e is a MergeElement over diff items <<k, tag, old, new>>                 *)
NewData(d) == IF d[2] = "Left" THEN Absent ELSE d[4]     \* DiffElement::new_data
FoldStep(ac, e, nL, nR) ==
  LET key == e[2][1]     \* Left/Right: its key; Both: left_key
      data == IF e[1] = "Both" THEN <<NewData(e[2]), NewData(e[3])>>
              ELSE IF e[1] = "Left" THEN <<NewData(e[2]), Get(nR, key)>>
              ELSE <<Get(nL, key), NewData(e[2])>>
      called == ~(data[1] = Absent /\ data[2] = Absent)
      \* f(key, elem) = Some(elem.cloned())
  IN <<IF called THEN MapInsert(ac[1], key, CallVal(data[1], data[2])) ELSE MapRemove(ac[1], key),
       IF called THEN Append(ac[2], <<key>> \o CallVal(data[1], data[2])) ELSE ac[2]>>

-----------------------------------------------------------------------------
(* INITIAL STATES (universe supplied by the model) and the next() action    *)

InitDiff(kind, m1, m2) ==
  /\ mk = kind /\ inp = <<m1, m2>>
  /\ a = IF kind = "sdo" THEN m1 ELSE KeySeq(m1)
  /\ b = IF kind = "sdo" THEN m2 ELSE KeySeq(m2)
  /\ fused = "None" /\ out = <<>> /\ acc = <<>> /\ done = FALSE /\ n = 0

(* merge_shared_impl(Some((oL, oR, old_output)), nL, nR, ..): old_output is *)
(* the result of the previous run, i.e. the key-wise merge of the old maps  *)
(* (the first run is the instance oL = oR = empty).                         *)
InitMerge(oL, nL, oR, nR) ==
  /\ mk = "ms" /\ inp = <<oL, nL, oR, nR>>
  /\ a = SDRun(oL, nL) /\ b = SDRun(oR, nR)
  /\ fused = "None" /\ out = <<>> /\ acc = <<OutDef(oL, oR), <<>>>> /\ done = FALSE /\ n = 0

Cur == [a |-> a, b |-> b, fused |-> fused]
Step ==
  IF mk = "mo" THEN MONext(Cur)
  ELSE IF mk = "sd" THEN SDNext(Cur, inp[1], inp[2])
  ELSE IF mk = "sdo" THEN SDONext(Cur)
  ELSE MOWNext(Cur)

CallNext ==
  /\ ~done
  /\ LET r == Step IN
     /\ a' = r.s.a /\ b' = r.s.b /\ fused' = r.s.fused
     /\ done' = (r.item = None)
     /\ out' = IF r.item = None THEN out ELSE Append(out, r.item[1])
     /\ acc' = IF mk = "ms" /\ r.item # None THEN FoldStep(acc, r.item[1], inp[2], inp[4]) ELSE acc
  /\ n' = n + 1
  /\ UNCHANGED <<mk, inp>>

Next == CallNext

-----------------------------------------------------------------------------
(* PROPERTIES *)

\* what the machine has emitted, in the format of its definition, and the definition
Emitted == IF mk = "sd" THEN NormSeqSD(out)
           ELSE IF mk = "sdo" THEN NormSeqSDO(out)
           ELSE out
Expected == IF mk = "mo" THEN SortedSeq(KeysOf(inp[1]) \cup KeysOf(inp[2]))
            ELSE IF mk \in {"sd", "sdo"} THEN DiffDef(inp[1], inp[2])
            ELSE MergeDef(DiffDef(inp[1], inp[2]), DiffDef(inp[3], inp[4]))
EmittedKeys == IF mk = "mo" THEN out
               ELSE IF mk = "ms" THEN [i \in DOMAIN out |-> MergeKey(out[i])]
               ELSE [i \in DOMAIN out |-> Emitted[i][1]]

InputsAreMaps == \A i \in DOMAIN inp : IsMap(inp[i])

\* the emitted sequence is always a prefix of the definition, and all of it at termination
InvPrefix == IsPrefix(Emitted, Expected)
InvComplete == done => Emitted = Expected
\* strictly ascending keys (hence each key at most once)
InvAscending == StrictlyAscending(EmittedKeys)
InvOnce == Cardinality({EmittedKeys[i] : i \in DOMAIN EmittedKeys}) = Cardinality(DOMAIN EmittedKeys)
\* nothing is visited for equal maps
InvEqualNothing ==
  /\ (mk \in {"sd", "sdo"} /\ inp[1] = inp[2]) => out = <<>>
  /\ (mk = "ms" /\ inp[1] = inp[2] /\ inp[3] = inp[4]) => (out = <<>> /\ acc[2] = <<>>)
\* exactly the keys that are in one map only or have unequal values
InvExactKeys == (done /\ mk \in {"sd", "sdo"}) =>
  {EmittedKeys[i] : i \in DOMAIN EmittedKeys} = DiffKeys(inp[1], inp[2])
\* the merge pairs equal keys, and every item of both input streams is used exactly once
InvMergePairs == mk = "ms" =>
  /\ \A i \in DOMAIN out : out[i][1] = "Both" => out[i][2][1] = out[i][3][1]
  /\ done => /\ {MergeKey(out[i]) : i \in DOMAIN out} = DiffKeys(inp[1], inp[2]) \cup DiffKeys(inp[3], inp[4])
             /\ a = <<>> /\ b = <<>>
\* the lazily computed input streams of the merge are the definitions
InvStreams == (mk = "ms" /\ n = 0) => (a = DiffDef(inp[1], inp[2]) /\ b = DiffDef(inp[3], inp[4]))
\* incr_merge: closure calls and resulting map
InvCalls == mk = "ms" =>
  /\ IsPrefix(acc[2], CallsDef(inp[1], inp[2], inp[3], inp[4]))
  /\ done => /\ acc[2] = CallsDef(inp[1], inp[2], inp[3], inp[4])
             /\ acc[1] = OutDef(inp[2], inp[4])
\* once None, always None, without touching the state
InvDoneFixpoint == done => (Step.item = None /\ Step.s = Cur)
\* the number of calls is bounded by the number of keys (+1 for the final None)
InvBound == n <= Cardinality(UNION {KeysOf(inp[i]) : i \in DOMAIN inp}) + 1

=============================================================================
