----------------------------- MODULE MapiGraph -----------------------------
(***************************************************************************)
(* The graph-rewiring operators of the crate incremental-map (C16, C17):   *)
(* incr_mapi_, incr_filter_mapi_, incr_mapi_cutoff, incr_filter_mapi_cutoff *)
(* on BTreeMap (btree_map.rs incr_filter_mapi_generic_btree_map) and       *)
(* OrdMap (im_rc.rs incr_filter_mapi_ordmap); the two functions are the    *)
(* same text over two map types.                                           *)
(*                                                                         *)
(* The operator builds                                                     *)
(*   result      an expert node, recompute = acc.clone()                   *)
(*   lhs_change  = input.map_cyclic(closure), a child of result; the       *)
(*               closure walks symmetric_fold(prev_map, map) and, per      *)
(*               differing key in ascending order:                         *)
(*      Unequal  nodes.get(key).unwrap().make_stale()                      *)
(*      Left     (node, dep) = nodes.remove(key).unwrap();                 *)
(*               node.upgrade().unwrap(); result.remove_dependency(dep);   *)
(*               acc.remove(key); node.invalidate()                        *)
(*      Right    node = expert node, recompute = prev_map[key].clone(),    *)
(*               optional cutoff, child lhs_change;                        *)
(*               mapped = f(key, node.watch())       (the user's builder)  *)
(*               dep = result.add_dependency_with(mapped, v ->             *)
(*                        on_inner_change(key, v)) (insert/remove in acc)  *)
(*               nodes.insert(key, (node.weak(), dep))                     *)
(*     and finally prev_map = map.clone().                                 *)
(* prev_nodes holds the per-key expert nodes WEAKLY: such a node lives     *)
(* only while the user's mapped node depends on it.                        *)
(*                                                                         *)
(* Engine facts used (src/kind/expert.rs, src/node.rs, src/state.rs):      *)
(*  E1 nodes run in a stabilise only while necessary (the output is        *)
(*     observed at the start of the stabilise); in height order: the Vars, *)
(*     lhs_change, the per-key nodes, the user's nodes, result;            *)
(*  E2 a Var node / map node changes iff its new value differs (PartialEq  *)
(*     cutoff); lhs_change has value () and so changes on its first run    *)
(*     only: later runs reach the other nodes through make_stale           *)
(*     (force_stale + recompute heap) and add/remove_dependency (result);  *)
(*  E3 the change callback of an edge of result runs  (a) when the child   *)
(*     changes, before result recomputes, (b) when the edge is linked      *)
(*     while result is necessary and the child already has a value,        *)
(*     both only if will_fire_all_callbacks is unset;  (c) for all edges   *)
(*     on result's first recompute after it became necessary               *)
(*     (will_fire_all_callbacks, set again when it becomes unnecessary);   *)
(*  E4 a node that becomes necessary again is recomputed only if stale;    *)
(*     values survive unnecessary periods;                                 *)
(*  E5 new observers are linked before dropped observers are unlinked:     *)
(*     necessity is the `observed` flag at the start of a stabilise;       *)
(*  E7 nodes of one height run in the order they entered the recompute     *)
(*     heap; a node that becomes unnecessary leaves it.  Only visible for  *)
(*     S5: whether the shared node runs in the stabilise that removes the  *)
(*     last key (field `first`).                                           *)
(*                                                                         *)
(* The user's per-key graph is one of five builder shapes (k key, x value  *)
(* of the per-key input node, w value of an outer Var); the filter         *)
(* variants return Option (None as stated):                                *)
(*   S1  v.map(x -> 10k + x + 1)                        None iff x = 0     *)
(*   S2  v.map2(wnode, (x, w) -> 10k + x + w)           None iff x + w = 0 *)
(*   S3  v.bind(x -> if x = 0 then wnode.map(w -> 100 + 10k + w)           *)
(*                            else constant(10k + x))   None iff x=0, w=0  *)
(*   S4  wnode.map(w -> 10k + w), ignores its input     None iff w = 0     *)
(*   S5  one shared node wnode.map(w -> 100 + w)        None iff w = 0     *)
(* (harness/src/bin/mapi.rs instantiates the real operators with the same  *)
(* builders, instrumented).  Cutoff of the per-key node: "eq" = PartialEq  *)
(* (also the default without cutoff), "fn" = the function cutoff           *)
(* (old, new) -> new >= old.  Engine fact E6 (node.rs maybe_change_value):  *)
(* a recomputed node always stores its new value; the cutoff, consulted    *)
(* with (stored old value, new value), only decides whether the change is  *)
(* announced (changed_at, parents).  A cutoff that suppresses unequal      *)
(* values therefore lets the node's value drift silently; a dependant that *)
(* re-runs for another reason (S2: the outer value) reads the drifted      *)
(* value.  C16 literally ("the current entries") is the "eq" case; for     *)
(* "fn" the Definition is applied to the entries the per-key closures      *)
(* last consumed (ghost eff, see EffNext).                                  *)
(*                                                                         *)
(* Defects: set of defects of the CODE that are switched on.  {} is the    *)
(* intended design (all invariants hold).                                  *)
(*   "weak_unwrap"  the code as written: Unequal / Left unwrap the weak    *)
(*                  reference of a per-key node that died because the      *)
(*                  builder did not use its input (S4, S5): panic          *)
(*                  (btree_map.rs:183-184,191; im_rc.rs:510-511,518).      *)
(*                  Intended design: a dead node needs no make_stale and   *)
(*                  no invalidate; the rest of Left still happens.         *)
(*   "no_link_cb"   the engine before commit d02da71: E3(b) never ran      *)
(*                  (node.rs tested the child's kind): a key added later   *)
(*                  to an already computed shared node (S5) never reaches  *)
(*                  acc.  Repaired in /repo; kept to show the effect (an   *)
(*                  approximation of the old engine, not validated to the  *)
(*                  last behaviour).                                       *)
(* With a defect switched on TLC reports InvOpCorrect violated.            *)
(*                                                                         *)
(* All instances [shape, filter, cut] run in lock-step on the same         *)
(* actions, each in its own engine state.  The whole state is the record   *)
(* `st`; actions are pure operators st' = Op(st, args).                    *)
(***************************************************************************)
EXTENDS Integers, Sequences, FiniteSets, TLC

CONSTANTS NK,       \* keys are 1..NK
          NV,       \* values are 0..NV-1
          NW,       \* the outer variable ranges over 0..NW-1
          Shapes,   \* subset of AllShapes
          Filters,  \* subset of BOOLEAN: FALSE = incr_mapi_*, TRUE = incr_filter_mapi_*
          Cuts,     \* subset of {"eq", "fn"}
          Defects   \* subset of {"weak_unwrap", "no_link_cb"}

VARIABLE st

Keys == 1..NK
Vals == 0..(NV - 1)
Outers == 0..(NW - 1)
KeySeq == [i \in 1..NK |-> i]
EmptyMap == <<>>
\* a map is a function from a subset of Keys
Maps == UNION {[D -> Vals] : D \in SUBSET Keys}

Has(m, k) == k \in DOMAIN m
MapPut(m, k, v) == [x \in (DOMAIN m) \cup {k} |-> IF x = k THEN v ELSE m[x]]
MapRemove(m, k) == [x \in (DOMAIN m) \ {k} |-> m[x]]
MapKeySeq(m) == SelectSeq(KeySeq, LAMBDA k : Has(m, k))
\* sorted sequence of <<k, v>> pairs (export format of a map)
MapSeq(m) == LET ks == MapKeySeq(m) IN [i \in 1..Len(ks) |-> <<ks[i], m[ks[i]]>>]
SetSeq(S) == SelectSeq(KeySeq, LAMBDA k : k \in S)

Differs(a, b, k) == \/ Has(a, k) # Has(b, k)
                    \/ (Has(a, k) /\ Has(b, k) /\ a[k] # b[k])
\* what symmetric_fold visits, in visiting order (the iterators are modelled in SymDiff.tla)
DiffKeySeq(a, b) == SelectSeq(KeySeq, LAMBDA k : Differs(a, b, k))

Some(v) == [some |-> TRUE, v |-> v]
None == [some |-> FALSE, v |-> 0]

---------------------------------------------------------------------------
(* Instances and the user's per-key computation                             *)
AllShapes == {"S1", "S2", "S3", "S4", "S5"}
Insts == [shape : Shapes, filter : Filters, cut : Cuts]
Name(i) == i.shape \o "." \o (IF i.filter THEN "f" ELSE "m") \o "." \o i.cut

Val(sh, k, x, w) ==
  CASE sh = "S1" -> 10 * k + x + 1
    [] sh = "S2" -> 10 * k + x + w
    [] sh = "S3" -> IF x = 0 THEN 100 + 10 * k + w ELSE 10 * k + x
    [] sh = "S4" -> 10 * k + w
    [] sh = "S5" -> 100 + w
Keep(sh, k, x, w) ==
  CASE sh = "S1" -> x # 0
    [] sh = "S2" -> x + w # 0
    [] sh = "S3" -> x # 0 \/ w # 0
    [] sh \in {"S4", "S5"} -> w # 0
\* value of the node the builder returns for key k
Out(i, k, x, w) == IF i.filter /\ ~Keep(i.shape, k, x, w) THEN None ELSE Some(Val(i.shape, k, x, w))

\* the builder's graph depends on the per-key input node (keeps it alive)
ReadsInput(sh) == sh \in {"S1", "S2", "S3"}
\* should_cutoff(old, new) of the per-key node
Cut(c, old, new) == IF c = "fn" THEN new >= old ELSE new = old

\* Definition: the user's per-key computation applied to the entries m, outer value w
MapiDef(sh, filter, m, w) ==
  LET D == {k \in DOMAIN m : ~filter \/ Keep(sh, k, m[k], w)}
  IN [k \in D |-> Val(sh, k, m[k], w)]

\* The entries the per-key closures have consumed (E6): the closure of key k consumes the
\* current value iff the key is new, or the cutoff (old = the entry at the operator's
\* previous run, new = the entry now) lets the change pass, or it re-runs because of the
\* outer value (wRerun).  With "eq" this is the current input.
EffNext(c, eff, seen, new, wRerun) ==
  [k \in DOMAIN new |-> IF Has(eff, k) /\ Has(seen, k) /\ Cut(c, seen[k], new[k]) /\ ~wRerun
                        THEN eff[k] ELSE new[k]]

Run(role, k) == [role |-> role, key |-> k]

---------------------------------------------------------------------------
(* State of one instance                                                    *)
(*  nec       result (hence everything) was necessary in the last stabilise *)
(*  inHas/inVal, wHas/wVal   value of the input Var's node / outer Var's    *)
(*  lcRan     lhs_change has run                                            *)
(*  prevMap   prev_map                                                      *)
(*  nodes     prev_nodes: key -> [alive, stale, has, v]  the per-key expert *)
(*            node: alive (the weak reference upgrades), stale (force_stale *)
(*            by make_stale or creation), has/v (its value)                 *)
(*  mapped    key -> [has, out, x]  value of the node the builder returned  *)
(*            (S1-S4) and the input value x its closure last consumed;     *)
(*            shared = [has, out] of the one node of S5                    *)
(*  acc, fireAll (will_fire_all_callbacks), resStale (force_stale of        *)
(*  result), resHas/resVal (value of result = the operator's output)        *)
(*  eff       ghost: the consumed entries, see EffNext                      *)
(*  inPend/wPend  the Var was set since its node last ran (the node is      *)
(*            stale); nrec: ghost, node recomputations of the last          *)
(*            stabilise (exact for S1, S2)                                  *)
(*  ghost of the last stabilise: calls (builder invocations), runs (the     *)
(*  user's per-key closures that ran), recomputed (per-key expert nodes     *)
(*  that recomputed), invalidated, last = [ran (lhs_change ran), seen       *)
(*  (prevMap before), w / wHad (wVal / wHas before), now (input)]          *)
InstInit ==
  [panicked |-> FALSE, nec |-> FALSE,
   inHas |-> FALSE, inVal |-> EmptyMap, wHas |-> FALSE, wVal |-> 0,
   lcRan |-> FALSE, prevMap |-> EmptyMap, nodes |-> EmptyMap, mapped |-> EmptyMap,
   shared |-> [has |-> FALSE, out |-> None],
   acc |-> EmptyMap, fireAll |-> TRUE, resStale |-> TRUE, resHas |-> FALSE, resVal |-> EmptyMap,
   eff |-> EmptyMap, inPend |-> TRUE, wPend |-> TRUE,
   calls |-> <<>>, nrec |-> 0, runs |-> <<>>, recomputed |-> <<>>, invalidated |-> {},
   last |-> [ran |-> FALSE, seen |-> EmptyMap, w |-> 0, wHad |-> FALSE, now |-> EmptyMap]]

\* first: which Var was set first since the last stabilise ("none", "in", "w"): the recompute
\* heap is FIFO per height, so this is the order in which the two Var nodes run (E7)
InitState ==
  [input |-> EmptyMap, w |-> 0, observed |-> FALSE, clean |-> TRUE, first |-> "none",
   inst |-> [i \in Insts |-> InstInit]]

\* on_inner_change(key, value)
Upd(acc, k, o) == IF o.some THEN MapPut(acc, k, o.v) ELSE MapRemove(acc, k)
\* callbacks of the edges of the keys ks (a sequence); outs: key -> value of the child
RECURSIVE UpdAll(_, _, _)
UpdAll(acc, ks, outs) ==
  IF ks = <<>> THEN acc ELSE UpdAll(Upd(acc, Head(ks), outs[Head(ks)]), Tail(ks), outs)

---------------------------------------------------------------------------
(* lhs_change's closure: one element of the symmetric fold                  *)
DiffStep(i, a, new, k) ==
  LET sh == i.shape IN
  CASE Has(a.prevMap, k) /\ Has(new, k) ->                       \* DiffElement::Unequal
         IF a.nodes[k].alive THEN [a EXCEPT !.nodes[k].stale = TRUE]
         ELSE IF "weak_unwrap" \in Defects THEN [a EXCEPT !.panicked = TRUE]
         ELSE a
    [] Has(a.prevMap, k) /\ ~Has(new, k) ->                      \* DiffElement::Left
         IF ~a.nodes[k].alive /\ "weak_unwrap" \in Defects
         THEN [a EXCEPT !.panicked = TRUE, !.nodes = MapRemove(@, k)]
         ELSE [a EXCEPT !.nodes = MapRemove(@, k),
                        !.mapped = IF sh = "S5" THEN @ ELSE MapRemove(@, k),
                        !.acc = MapRemove(@, k),
                        !.resStale = TRUE,
                        !.invalidated = IF a.nodes[k].alive THEN @ \cup {k} ELSE @]
    [] OTHER ->                                                   \* DiffElement::Right
         LET linkCb == sh = "S5" /\ a.shared.has /\ ~a.fireAll /\ "no_link_cb" \notin Defects IN
         [a EXCEPT !.nodes = MapPut(@, k, [alive |-> ReadsInput(sh), stale |-> TRUE, has |-> FALSE, v |-> 0]),
                   !.mapped = IF sh = "S5" THEN @ ELSE MapPut(@, k, [has |-> FALSE, out |-> None, x |-> 0]),
                   !.calls = Append(@, k),
                   !.acc = IF linkCb THEN Upd(@, k, a.shared.out) ELSE @,
                   !.resStale = TRUE]

RECURSIVE DiffLoop(_, _, _, _)
DiffLoop(i, a, new, ks) ==
  IF ks = <<>> \/ a.panicked THEN a
  ELSE DiffLoop(i, DiffStep(i, a, new, Head(ks)), new, Tail(ks))

\* nodes that read the outer Var's node exist (they make it necessary)
WReaders(i, a) ==
  CASE i.shape = "S1" -> FALSE
    [] i.shape = "S3" -> \E k \in DOMAIN a.mapped : a.mapped[k].has /\ a.mapped[k].x = 0
    [] OTHER -> DOMAIN a.nodes # {}

(* One stabilise of one instance.                                           *)
StabInst(i, r, input, w, observed, first) ==
  LET quiet == [r EXCEPT !.calls = <<>>, !.runs = <<>>, !.recomputed = <<>>, !.invalidated = {}, !.nrec = 0,
                         !.last = [ran |-> FALSE, seen |-> r.prevMap, w |-> r.wVal,
                                   wHad |-> r.wHas, now |-> input]]
  IN
  IF r.panicked THEN r
  ELSE IF ~observed
  THEN \* result becomes (or stays) unnecessary: observability_change(false)
       [quiet EXCEPT !.nec = FALSE, !.fireAll = IF r.nec THEN TRUE ELSE @]
  ELSE
  LET sh == i.shape
      \* the input Var's node, then lhs_change
      inChanged == ~r.inHas \/ r.inVal # input
      lcRuns == ~r.lcRan \/ inChanged
      a0 == [quiet EXCEPT !.nec = TRUE, !.inHas = TRUE, !.inVal = input, !.inPend = FALSE]
      a1 == IF lcRuns
            THEN LET d == DiffLoop(i, a0, input, DiffKeySeq(a0.prevMap, input))
                 IN IF d.panicked THEN d
                    ELSE [d EXCEPT !.prevMap = input, !.lcRan = TRUE, !.last.ran = TRUE]
            ELSE a0
  IN
  IF a1.panicked THEN a1
  ELSE
  LET \* the per-key expert nodes: necessary iff alive; run iff never computed or made stale;
      \* the new value is stored in any case, the cutoff decides whether it is announced (E6)
      ks == DOMAIN a1.nodes
      kRuns(k) == a1.nodes[k].alive /\ (~a1.nodes[k].has \/ a1.nodes[k].stale)
      kChg(k) == kRuns(k) /\ (~a1.nodes[k].has \/ ~Cut(i.cut, a1.nodes[k].v, a1.prevMap[k]))
      nodes2 == [k \in ks |-> IF kRuns(k)
                              THEN [alive |-> TRUE, stale |-> FALSE, has |-> TRUE, v |-> a1.prevMap[k]]
                              ELSE a1.nodes[k]]
      a2 == [a1 EXCEPT !.nodes = nodes2, !.recomputed = SelectSeq(KeySeq, LAMBDA k : k \in ks /\ kRuns(k))]
      \* the outer Var's node is necessary iff some node reads it (before or after the rewiring)
      xK(k) == IF kChg(k) THEN nodes2[k].v ELSE a2.mapped[k].x
      readersAfter == CASE sh = "S1" -> FALSE
                        [] sh = "S3" -> \E k \in ks : xK(k) = 0
                        [] OTHER -> ks # {}
      \* E7: the outer Var's node runs before lhs_change iff it was linked and set first;
      \* otherwise the input Var's node runs lhs_change at once, and if that removes every
      \* reader the outer Var's node leaves the recompute heap without running
      wBeforeLc == r.nec /\ WReaders(i, r) /\ (first = "w" \/ ~lcRuns)
      wUpd == wBeforeLc \/ readersAfter
      wChanged == wUpd /\ (~r.wHas \/ r.wVal # w)
      wv == IF wUpd THEN w ELSE r.wVal
      a3 == [a2 EXCEPT !.wHas = IF wUpd THEN TRUE ELSE @, !.wVal = wv, !.wPend = IF wUpd THEN FALSE ELSE @,
                       !.eff = EffNext(i.cut, r.eff, r.prevMap, input, sh = "S2" /\ wChanged)]
      \* the user's nodes
      inRun(k) == ReadsInput(sh) /\ (kChg(k) \/ (sh = "S2" /\ wChanged))
      x(k) == IF ~ReadsInput(sh) THEN 0 ELSE IF inRun(k) THEN nodes2[k].v ELSE a3.mapped[k].x
      newOut(k) == Out(i, k, x(k), wv)
      wRun(k) == \/ sh = "S3" /\ x(k) = 0 /\ (kChg(k) \/ wChanged)
                 \/ sh = "S4" /\ (~a3.mapped[k].has \/ wChanged)
      \* the shared node is the only parent of the outer Var's node and is recomputed at
      \* once when that changes (if before lhs_change: even if every key is then removed)
      sharedRun == sh = "S5" /\ \/ wBeforeLc /\ wChanged
                                \/ ks # {} /\ (~a3.shared.has \/ wChanged)
      sharedOut == Out(i, 0, 0, wv)
      sharedChg == sharedRun /\ (~a3.shared.has \/ a3.shared.out # sharedOut)
      mChg(k) == IF sh = "S5" THEN sharedChg
                 ELSE ~a3.mapped[k].has \/ a3.mapped[k].out # newOut(k)
      outs == [k \in ks |-> IF sh = "S5" THEN sharedOut ELSE newOut(k)]
      kseq == SetSeq(ks)
      runs == (IF sharedRun THEN <<Run("w", 0)>> ELSE <<>>)
              \o [j \in 1..Len(SelectSeq(kseq, inRun)) |-> Run("in", SelectSeq(kseq, inRun)[j])]
              \o [j \in 1..Len(SelectSeq(kseq, wRun)) |-> Run("w", SelectSeq(kseq, wRun)[j])]
      \* E3(a): callbacks of the changed children
      acc4 == IF a3.fireAll THEN a3.acc ELSE UpdAll(a3.acc, SelectSeq(kseq, mChg), outs)
      a4 == [a3 EXCEPT !.mapped = IF sh = "S5" THEN @ ELSE [k \in ks |-> [has |-> TRUE, out |-> newOut(k), x |-> x(k)]],
                       !.shared = IF sharedRun THEN [has |-> TRUE, out |-> sharedOut] ELSE @,
                       !.runs = runs,
                       !.acc = acc4]
      \* result
      resRuns == ~a4.resHas \/ a4.resStale \/ (lcRuns /\ ~r.lcRan) \/ \E k \in ks : mChg(k)
      acc5 == IF a4.fireAll THEN UpdAll(a4.acc, kseq, outs) ELSE a4.acc       \* E3(c)
      \* number of node recomputations of this stabilise (engine statistic num_nodes_recomputed):
      \* the two Var nodes (if set since they last ran), lhs_change, the per-key expert nodes,
      \* the user's nodes (counted for S1 and S2: one map / map2 node per key), result
      B(b) == IF b THEN 1 ELSE 0
      nrec == B(r.inPend) + B(wUpd /\ r.wPend) + B(lcRuns) + Len(a2.recomputed)
              + Len(SelectSeq(kseq, inRun)) + B(resRuns)
      a5 == [a4 EXCEPT !.nrec = nrec]
  IN IF resRuns
     THEN [a5 EXCEPT !.acc = acc5, !.fireAll = FALSE, !.resStale = FALSE, !.resHas = TRUE, !.resVal = acc5]
     ELSE a5

---------------------------------------------------------------------------
(* Actions                                                                  *)
SetInputOp(s, m) == [s EXCEPT !.input = m, !.clean = FALSE, !.first = IF @ = "none" THEN "in" ELSE @,
                              !.inst = [i \in Insts |-> [@[i] EXCEPT !.inPend = TRUE]]]
SetOuterOp(s, w) == [s EXCEPT !.w = w, !.clean = FALSE, !.first = IF @ = "none" THEN "w" ELSE @,
                              !.inst = [i \in Insts |-> [@[i] EXCEPT !.wPend = TRUE]]]
ObserveOp(s) == [s EXCEPT !.observed = TRUE, !.clean = FALSE]
UnobserveOp(s) == [s EXCEPT !.observed = FALSE, !.clean = FALSE]
StabiliseOp(s) ==
  [s EXCEPT !.clean = TRUE, !.first = "none",
            !.inst = [i \in Insts |-> StabInst(i, s.inst[i], s.input, s.w, s.observed, s.first)]]

Init == st = InitState
Next == \/ \E m \in Maps : st' = SetInputOp(st, m)
        \/ \E w \in Outers : st' = SetOuterOp(st, w)
        \/ ~st.observed /\ st' = ObserveOp(st)
        \/ st.observed /\ st' = UnobserveOp(st)
        \/ ~st.clean /\ st' = StabiliseOp(st)
Spec == Init /\ [][Next]_st

---------------------------------------------------------------------------
(* Properties                                                               *)

\* C16: after a stabilise with the output observed, the output is the Definition applied to
\* the current entries (modulo the declared cutoff) and the outer value; in particular the
\* operator did not panic
OpCorrectAt(s, i) ==
  LET r == s.inst[i] IN
  (s.clean /\ s.observed) =>
     /\ ~r.panicked
     /\ r.resHas
     /\ r.resVal = MapiDef(i.shape, i.filter, IF ReadsInput(i.shape) THEN r.eff ELSE s.input, s.w)
     /\ (i.cut = "eq" => r.eff = s.input)
OpCorrect(s) == \A i \in Insts : OpCorrectAt(s, i)

NoDup(sq) == \A a, b \in DOMAIN sq : a # b => sq[a] # sq[b]
SeqSet(sq) == {sq[j] : j \in DOMAIN sq}

\* the builder invocation log `calls` of the round described by r.last
CallsExact(r, observed, calls) ==
  /\ NoDup(calls)
  /\ SeqSet(calls) = IF observed THEN (DOMAIN r.last.now) \ (DOMAIN r.last.seen) ELSE {}

\* C17: the builder is invoked exactly for the keys that are present now and were not present
\* at lhs_change's previous run, once each; never while unobserved
BuilderOnlyNewKeysAt(s, i) ==
  LET r == s.inst[i] IN
  (s.clean /\ ~r.panicked) => CallsExact(r, s.observed, r.calls)
BuilderOnlyNewKeys(s) == \A i \in Insts : BuilderOnlyNewKeysAt(s, i)

\* The per-key closures of S4 read only the outer value and sit at the height of lhs_change:
\* when the outer value changes in the stabilise in which their key is removed they may or
\* may not run before the removal.  Such runs (role "w" on a key that is not in the current
\* input) are outside the property; the model never has them, observed logs are filtered.
RelevantRuns(runs, now) ==
  SelectSeq(runs, LAMBDA e : e.role # "w" \/ e.key = 0 \/ Has(now, e.key))

\* C17: per-key nodes of keys that did not change are not recomputed.  For a log `runs` of
\* the user's per-key closures of the round described by r.last: the closure reading the
\* per-key input runs only for a new key, a key whose change passed the cutoff or (S2) when
\* the outer value changed; closures reading only the outer value run only when fresh or when
\* it changed; every closure at most once; nothing runs while unobserved
RunsQuiet(i, r, observed, runs) ==
  LET new(k) == ~Has(r.last.seen, k)
      passed(k) == Has(r.last.seen, k) /\ Has(r.last.now, k) /\ ~Cut(i.cut, r.last.seen[k], r.last.now[k])
      wChanged == ~r.last.wHad \/ r.last.w # r.wVal
  IN /\ NoDup(runs)
     /\ ~observed => runs = <<>>
     /\ \A j \in DOMAIN runs :
           LET k == runs[j].key IN
           IF runs[j].role = "in"
           THEN ReadsInput(i.shape) /\ Has(r.last.now, k) /\ (new(k) \/ passed(k) \/ (i.shape = "S2" /\ wChanged))
           ELSE /\ i.shape \in {"S3", "S4", "S5"}
                /\ (k = 0) = (i.shape = "S5")
                /\ k # 0 => (Has(r.last.now, k) /\ (new(k) \/ passed(k) \/ wChanged))
     /\ (i.shape = "S5" /\ Len(runs) > 0) => wChanged

\* shapes for which nrec counts every node
CountedShapes == {"S1", "S2"}

\* the per-key expert node runs only for a new key or a key whose value differs from the
\* previous run, and never while unobserved
UnchangedKeysQuietAt(s, i) ==
  LET r == s.inst[i]
      new(k) == ~Has(r.last.seen, k)
      valueChanged(k) == Has(r.last.seen, k) /\ Has(r.last.now, k) /\ r.last.seen[k] # r.last.now[k]
  IN
  (s.clean /\ ~r.panicked) =>
     /\ NoDup(r.recomputed)
     /\ ~s.observed => r.recomputed = <<>>
     /\ \A j \in DOMAIN r.recomputed :
           LET k == r.recomputed[j] IN Has(r.last.now, k) /\ (new(k) \/ valueChanged(k))
     /\ RunsQuiet(i, r, s.observed, r.runs)
UnchangedKeysQuiet(s) == \A i \in Insts : UnchangedKeysQuietAt(s, i)

InvOpCorrect == OpCorrect(st)
InvBuilderOnlyNewKeys == BuilderOnlyNewKeys(st)
InvUnchangedKeysQuiet == UnchangedKeysQuiet(st)
=============================================================================
