"""C18 stage: symmetric_fold / diff-stream merge of incremental-map.

  run(tier, seed, work_dir) -> dict
      1. TLC on spec/MC_SymDiff.tla (transcribed iterator machines vs. the definitions);
      2. every enumerated case (exported by TLC as CASE lines) replayed on the real
         symmetric_fold / incr_merge by harness/target/debug/symdiff;
      3. random larger maps through the real symmetric_fold, judged by spec/SymDiffMon.tla.
  replay(path) -> bool   (True iff the violation stored in `path` reproduces on the current code)

Stdlib only.  Can also be run directly:  stage_symdiff.py quick|thorough [seed] [work_dir]
"""
import glob
import json
import os
import re
import shutil
import subprocess
import sys
import tempfile
import time

ROOT = os.path.dirname(os.path.dirname(os.path.abspath(__file__)))
SPEC = os.path.join(ROOT, "spec")
HARNESS = os.environ.get("SYMDIFF_HARNESS", os.path.join(ROOT, "harness"))
BIN = os.path.join(HARNESS, "target", "debug", "symdiff")
TLC_WORKERS = os.environ.get("TLC_WORKERS", "8")
MON_ENV = {"JAVA_TOOL_OPTIONS": "-Xss1g -Dtlc2.tool.queue.IStateQueue=StateDeque"}

CFG = {"quick": "MC_SymDiff_quick.cfg", "thorough": "MC_SymDiff.cfg"}
TLC_TIMEOUT = {"quick": 300, "thorough": 900}
# (number of pairs, max keys, max value) per random batch; the second thorough batch makes
# OrdMap trees with more than one level (im-rc nodes hold 64 entries)
RANDOM = {"quick": [(200, 10, 3)], "thorough": [(2000, 10, 3), (60, 150, 3)]}


def ensure_binary():
    """(Re)build the symdiff binary when missing or older than its source. Returns error or None."""
    src = os.path.join(HARNESS, "src", "bin", "symdiff.rs")
    try:
        fresh = os.path.getmtime(BIN) >= os.path.getmtime(src)
    except OSError:
        fresh = False
    if fresh and not os.environ.get("SYMDIFF_REBUILD"):
        return None
    p = subprocess.run(["cargo", "build", "--offline", "--bin", "symdiff"], cwd=HARNESS,
                       stdout=subprocess.PIPE, stderr=subprocess.STDOUT, text=True)
    if p.returncode != 0:
        return "cargo build failed: " + p.stdout[-2000:]
    return None


def run_tlc_mc(tier, seed, work_dir):
    """Model-check MC_SymDiff; CASE lines go to <work_dir>/symdiff.cases."""
    out = os.path.join(work_dir, "symdiff_tlc.out")
    cases = os.path.join(work_dir, "symdiff.cases")
    meta = os.path.join(work_dir, "tlc_symdiff")
    timeout = TLC_TIMEOUT[tier]
    cmd = ["timeout", str(timeout), "tlc", "-workers", TLC_WORKERS, "-metadir", meta, "-cleanup",
           "-noGenerateSpecTE", "-config", CFG[tier], "MC_SymDiff.tla"]
    with open(out, "w") as f:
        p = subprocess.run(cmd, cwd=SPEC, stdout=f, stderr=subprocess.STDOUT, text=True)
    generated = distinct = ncases = 0
    err = None
    ok = False
    with open(out, errors="replace") as f, open(cases, "w") as g:
        for line in f:
            if line.startswith('<<"CASE"'):
                g.write(line)
                ncases += 1
                continue
            m = re.match(r"(\d+) states generated, (\d+) distinct states found", line)
            if m:
                generated, distinct = int(m.group(1)), int(m.group(2))
            if "No error has been found" in line:
                ok = True
            if line.startswith("Error:") and err is None:
                err = "TLC: " + line.strip()
    shutil.rmtree(meta, ignore_errors=True)
    if p.returncode == 124:
        err = f"TLC timed out after {timeout}s"
    elif err is None and (p.returncode != 0 or not ok):
        err = f"TLC exit code {p.returncode} (see {out})"
    return dict(states=distinct, transitions=generated, cases=ncases, cases_file=cases, error=err, out=out)


def run_mon(trace, work_dir, tag="mon"):
    """SymDiffMon over an ndjson trace. Returns (judge_lines [(l, json)], n_done or None, error)."""
    meta = os.path.join(work_dir, f"tlc_symdiff_{tag}")
    env = dict(os.environ)
    env.update(MON_ENV)
    env["TRACE"] = os.path.abspath(trace)
    cmd = ["timeout", "900", "tlc", "-workers", "1", "-metadir", meta, "-cleanup", "-noGenerateSpecTE",
           "-config", "SymDiffMon.cfg", "SymDiffMon.tla"]
    p = subprocess.run(cmd, cwd=SPEC, env=env, stdout=subprocess.PIPE, stderr=subprocess.STDOUT, text=True)
    shutil.rmtree(meta, ignore_errors=True)
    judge = []
    done = None
    err = None
    for line in p.stdout.splitlines():
        m = re.match(r'<<"JUDGE", (\d+), (".*")>>\s*$', line)
        if m:
            try:
                judge.append((int(m.group(1)), json.loads(json.loads(m.group(2)))))
            except ValueError:
                judge.append((int(m.group(1)), {"raw": line}))
            continue
        m = re.match(r'<<"TRACE-DONE", (\d+)>>', line)
        if m:
            done = int(m.group(1))
        if (line.startswith("Error:") or line.startswith('<<"TRACE-STUCK"')) and err is None:
            err = "SymDiffMon: " + line.strip()
    if done is None and err is None:
        err = f"SymDiffMon did not finish (exit {p.returncode}): " + p.stdout[-500:]
    return judge, done, err


def run(tier, seed, work_dir):
    t0 = time.time()
    os.makedirs(work_dir, exist_ok=True)
    viol_dir = os.path.join(work_dir, "violations", "C18")
    os.makedirs(viol_dir, exist_ok=True)
    for old in glob.glob(os.path.join(viol_dir, "case-*.json")) + glob.glob(os.path.join(viol_dir, "random-*.json")):
        os.remove(old)
    res = dict(states=0, transitions=0, cases=0, failed=0, random_pairs=0, judge=[], violations=[],
               samples=[], error=None, secs=0.0)
    errors = []

    # 1. the model
    mc = run_tlc_mc(tier, seed, work_dir)
    res.update(states=mc["states"], transitions=mc["transitions"], cases=mc["cases"])
    if mc["error"]:
        errors.append(mc["error"])

    berr = ensure_binary()
    if berr:
        errors.append(berr)
        res["error"] = "; ".join(errors)
        res["secs"] = round(time.time() - t0, 1)
        return res

    # 2. the enumerated cases on the real code
    if mc["cases"]:
        p = subprocess.run([BIN, mc["cases_file"], "--out", viol_dir], stdout=subprocess.PIPE,
                           stderr=subprocess.PIPE, text=True)
        try:
            summ = json.loads(p.stdout.strip().splitlines()[-1])
            if summ["cases"] != mc["cases"]:
                errors.append(f"symdiff parsed {summ['cases']} of {mc['cases']} cases")
            res["failed"] = summ["failed"]
            res["samples"] = summ.get("samples", [])
            res["by_type"] = summ.get("by_type", {})
        except (ValueError, IndexError, KeyError):
            errors.append(f"symdiff binary failed (exit {p.returncode}): {p.stderr[-500:]}")
        for path in sorted(glob.glob(os.path.join(viol_dir, "case-*.json"))):
            try:
                with open(path) as f:
                    v = json.load(f)
                c = v["case"]
                inputs = {k: c[k] for k in ("m1", "m2", "oldl", "newl", "oldr", "newr") if k in c}
                desc = (f"C18 {c['kind']} case on {v['type']}: inputs {json.dumps(inputs, separators=(',', ':'))} "
                        f"got {json.dumps(v['got'], separators=(',', ':'))[:300]} "
                        f"expected {json.dumps(v['expect'], separators=(',', ':'))[:300]}")
            except (ValueError, KeyError, OSError):
                desc = "C18 failing case (unreadable case file)"
            res["violations"].append((desc, path))
    else:
        errors.append("TLC exported no cases")

    # 3. random larger maps judged by the spec's definition
    line_base = 0
    for bi, (npairs, max_keys, max_val) in enumerate(RANDOM[tier]):
        trace = os.path.join(work_dir, f"symdiff_random_{bi}.ndjson")
        p = subprocess.run([BIN, "--random", str(npairs), "--seed", str(int(seed) + bi), "--out-trace", trace,
                            "--max-keys", str(max_keys), "--max-val", str(max_val)],
                           stdout=subprocess.PIPE, stderr=subprocess.PIPE, text=True)
        if p.returncode != 0 or not os.path.exists(trace):
            errors.append(f"symdiff --random failed (exit {p.returncode}): {p.stderr[-500:]}")
            continue
        judge, done, merr = run_mon(trace, work_dir, tag=f"mon{bi}")
        if merr:
            errors.append(merr)
        if done is not None:
            res["random_pairs"] += done
            if done != npairs:
                errors.append(f"SymDiffMon consumed {done} of {npairs} lines")
        if judge:
            with open(trace) as f:
                lines = f.read().splitlines()
            for l, info in judge:
                gl = line_base + l
                res["judge"].append({"line": gl, "batch": bi, "types": info.get("types"),
                                     "m1": info.get("m1"), "m2": info.get("m2"), "expect": info.get("expect")})
                if len([v for v in res["violations"] if "random" in os.path.basename(v[1])]) >= 5:
                    continue
                path = os.path.join(viol_dir, f"random-{gl}.json")
                with open(path, "w") as f:
                    json.dump({"kind": "symdiff-random", "line": json.loads(lines[l - 1])}, f)
                    f.write("\n")
                desc = (f"C18 random pair (line {gl}): symmetric_fold on {info.get('types')} differs from DiffDef: "
                        f"m1={json.dumps(info.get('m1'), separators=(',', ':'))[:200]} "
                        f"m2={json.dumps(info.get('m2'), separators=(',', ':'))[:200]}")
                res["violations"].append((desc, path))
        line_base += npairs

    res["error"] = "; ".join(errors) if errors else None
    res["secs"] = round(time.time() - t0, 1)
    return res


def replay(path):
    """Re-run one violation file against the current code; True iff it still fails."""
    if ensure_binary():
        return False
    with open(path) as f:
        v = json.load(f)
    kind = v.get("kind")
    with tempfile.TemporaryDirectory(prefix="symdiff_replay_") as tmp:
        if kind == "symdiff-case":
            # back through the normal front door: the case as a TLC CASE line
            cases = os.path.join(tmp, "one.cases")
            with open(cases, "w") as f:
                f.write('<<"CASE", ' + json.dumps(json.dumps(v["case"], separators=(",", ":"))) + ">>\n")
            p = subprocess.run([BIN, cases], stdout=subprocess.PIPE, stderr=subprocess.PIPE, text=True)
            try:
                summ = json.loads(p.stdout.strip().splitlines()[-1])
            except (ValueError, IndexError):
                return True  # the binary itself died on this case
            want = v.get("type")
            if summ.get("cases") != 1:
                return False
            return summ["failed"] > 0 and (not want or summ.get("by_type", {}).get(want, 0) > 0)
        if kind == "symdiff-random":
            trace = os.path.join(tmp, "one.ndjson")
            p = subprocess.run([BIN, "--one", path, "--out-trace", trace], stdout=subprocess.PIPE,
                               stderr=subprocess.PIPE, text=True)
            try:
                rust_verdict = json.loads(p.stdout.strip().splitlines()[-1])["failed"] > 0
            except (ValueError, IndexError, KeyError):
                return True
            if shutil.which("tlc") and os.path.exists(trace):
                judge, done, err = run_mon(trace, tmp, tag="replay")  # the spec is the judge of record
                if done == 1 and err is None:
                    return len(judge) > 0
            return rust_verdict
    return False


if __name__ == "__main__":
    if len(sys.argv) >= 3 and sys.argv[1] == "replay":
        print(json.dumps({"reproduces": replay(sys.argv[2])}))
        sys.exit(0)
    tier = sys.argv[1] if len(sys.argv) > 1 else "quick"
    seed = int(sys.argv[2]) if len(sys.argv) > 2 else 1
    wd = sys.argv[3] if len(sys.argv) > 3 else os.path.join(ROOT, "work", "symdiff")
    r = run(tier, seed, wd)
    print(json.dumps(r, indent=1)[:6000])
    sys.exit(0 if not r["error"] and not r["violations"] else 1)
