"""Stage "mapops": diff-based operators of incremental-map (C15, C17; panics => C04).

    import stage_mapops
    res = stage_mapops.run("quick" | "thorough", seed, work_dir)
    ok  = stage_mapops.replay("<work_dir>/violations/mapops/C15/mapops-0.json")   # True = reproduces

Pipeline:
  1. TLC on spec/MC_MapOps.tla (MC_MapOps_quick.cfg / MC_MapOps.cfg): invariants OpCorrect,
     Proportional, NoSpuriousChange of the transcribed step functions; exports one REPLAY line
     per maximal behaviour (expected outputs + expected user-function calls per stabilise).
     Instances: the eleven single operators, the plain-sum folds fold_sum / fold_sum_upd (init 0,
     a non-empty map can fold to init) and the chains chain_fm_map / chain_fm_fold
     (incr_filter_map followed by incr_map / incr_unordered_fold on its output node; calls of both
     stages in one log, role "f" = first stage, "g" / "add" / "remove" = second stage).
  2. harness/target/debug/mapops replays every behaviour against the real operators on every
     map type (BTreeMap, Rc<BTreeMap>, im_rc::OrdMap): output mismatch => C15, call-log mismatch
     => C17, panic => C04.
  3. mapops --random N: random longer runs recorded as ndjson, judged by spec/MapMon.tla
     (outputs against the Definitions, calls against Proportional); JUDGE lines are violations.

Environment overrides (used for mutation experiments): MAPOPS_HARNESS (harness crate dir,
default /verif/harness), MAPOPS_SPEC (spec dir), MAPOPS_NO_BUILD=1 (skip cargo build),
MAPOPS_KEEP=1 (keep the replay file of a clean thorough run).
Stdlib only.
"""
import json
import os
import re
import shutil
import subprocess
import time

VERIF = os.path.dirname(os.path.dirname(os.path.abspath(__file__)))
SPEC = os.environ.get("MAPOPS_SPEC", os.path.join(VERIF, "spec"))
HARNESS = os.environ.get("MAPOPS_HARNESS", os.path.join(VERIF, "harness"))
EXE = os.path.join(HARNESS, "target", "debug", "mapops")
TLC_WORKERS = os.environ.get("TLC_WORKERS", "8")
JUDGE_ENV = dict(JAVA_TOOL_OPTIONS="-Xss1g -Dtlc2.tool.queue.IStateQueue=StateDeque")
RANDOM_CHUNK = 250  # runs per MapMon invocation


def _run(cmd, **kw):
    return subprocess.run(cmd, stdout=subprocess.PIPE, stderr=subprocess.STDOUT, text=True, **kw)


def _build():
    """(Re)build the binary: the path dependencies on /repo make cargo pick up code changes."""
    if os.environ.get("MAPOPS_NO_BUILD") == "1" and os.path.exists(EXE):
        return None
    p = _run(["cargo", "build", "--offline", "--bin", "mapops"], cwd=HARNESS)
    if p.returncode != 0:
        return "cargo build --bin mapops failed:\n" + p.stdout[-3000:]
    return None


def _tlc(tier, work_dir):
    cfg = "MC_MapOps_quick.cfg" if tier == "quick" else "MC_MapOps.cfg"
    meta = os.path.join(work_dir, "tlc_mapops")
    out = os.path.join(work_dir, "mapops_tlc.out")
    rep = os.path.join(work_dir, "mapops.replay")
    timeout = 900 if tier == "quick" else 5400
    cmd = ["timeout", str(timeout), "tlc", "-workers", TLC_WORKERS, "-metadir", meta, "-cleanup",
           "-noGenerateSpecTE", "-config", cfg, "MC_MapOps.tla"]
    t0 = time.time()
    generated = distinct = nrep = 0
    err = None
    ok = False
    # stream TLC's output: REPLAY lines go to the replay file, everything else to the log
    p = subprocess.Popen(cmd, cwd=SPEC, stdout=subprocess.PIPE, stderr=subprocess.STDOUT, text=True,
                         errors="replace", bufsize=1 << 20)
    with open(out, "w") as f, open(rep, "w") as g:
        for line in p.stdout:
            if line.startswith('<<"REPLAY"'):
                g.write(line)
                nrep += 1
                continue
            f.write(line)
            m = re.match(r"(\d+) states generated, (\d+) distinct states found", line)
            if m:
                generated, distinct = int(m.group(1)), int(m.group(2))
            if line.startswith("Error:") and err is None:
                err = "TLC: " + line.strip()
            if "No error has been found" in line:
                ok = True
    p.wait()
    secs = time.time() - t0
    shutil.rmtree(meta, ignore_errors=True)
    if p.returncode == 124:
        err = f"TLC timed out after {timeout}s"
    elif (p.returncode != 0 or not ok) and err is None:
        err = f"TLC exit code {p.returncode} (see {out})"
    if err and "Invariant" in err:
        # keep the counterexample readable: first lines after the Error
        txt = open(out, errors="replace").read()
        i = txt.find("Error:")
        err += " | " + " ".join(txt[i:i + 4000].splitlines())[:1500]
    return dict(states=distinct, transitions=generated, behaviours=nrep, replay_file=rep,
                tlc_secs=round(secs, 1), error=err)


def _judge_trace(trace, work_dir, tag):
    """Runs MapMon on an ndjson trace.  Returns (judge list, error or None)."""
    meta = os.path.join(work_dir, f"tlc_mapmon_{tag}")
    env = dict(os.environ, TRACE=trace, **JUDGE_ENV)
    p = _run(["timeout", "1800", "tlc", "-workers", "1", "-metadir", meta, "-cleanup", "-noGenerateSpecTE",
              "-config", "MapMon.cfg", "MapMon.tla"], cwd=SPEC, env=env)
    shutil.rmtree(meta, ignore_errors=True)
    judge, done = [], False
    for line in p.stdout.splitlines():
        if line.startswith('<<"JUDGE"'):
            m = re.match(r'<<"JUDGE", (\d+), (".*")>>$', line)
            if not m:
                continue
            v = json.loads(json.loads(m.group(2)))
            judge.append(dict(prop=v["prop"], what="%s [%s/%s]" % (v["what"], v.get("op", "?"), v.get("mt", "?")),
                              line=int(m.group(1))))
        elif line.startswith('<<"TRACE-DONE"'):
            done = True
    err = None
    if not done:
        outp = os.path.join(work_dir, f"mapmon_{tag}.out")
        open(outp, "w").write(p.stdout)
        err = f"MapMon did not consume the whole trace {trace} (see {outp}): " + \
              " ".join(l for l in p.stdout.splitlines() if l.startswith("Error") or "TRACE-STUCK" in l)[:600]
    return judge, err


def _random(n, seed, work_dir, viol_dir):
    """Random runs + MapMon, in chunks.  Returns (runs, judge, violations, error)."""
    judge_all, violations, err = [], [], None
    done_runs = 0
    nfile = 0
    chunk_no = 0
    while done_runs < n and err is None:
        k = min(RANDOM_CHUNK, n - done_runs)
        trace = os.path.join(work_dir, f"mapops_random_{chunk_no}.ndjson")
        p = _run([EXE, "--random", str(k), "--seed", str(seed * 1000 + chunk_no), "--out-trace", trace])
        if p.returncode != 0:
            err = "mapops --random failed: " + p.stdout[-1500:]
            break
        judge, jerr = _judge_trace(trace, work_dir, f"r{chunk_no}")
        if jerr:
            err = jerr
        if judge:
            lines = [json.loads(x) for x in open(trace)]
            by_run = {}
            for j in judge:
                run_no = lines[j["line"] - 1].get("run", -1)
                by_run.setdefault(run_no, []).append(j)
            for run_no, js in sorted(by_run.items()):
                first = min(i for i, l in enumerate(lines) if l.get("run") == run_no)
                run_lines = [l for l in lines if l.get("run") == run_no]
                rel = [dict(j, line=j["line"] - first) for j in js]
                for j in js:
                    judge_all.append(dict(j, chunk=chunk_no, run=run_no))
                if nfile < 10:
                    os.makedirs(viol_dir, exist_ok=True)
                    path = os.path.join(viol_dir, f"random-{nfile}.json")
                    with open(path, "w") as f:
                        json.dump({"kind": "mapops-random", "lines": run_lines, "judge": rel,
                                   "seed": seed * 1000 + chunk_no, "run": run_no}, f)
                        f.write("\n")
                    nfile += 1
                    for prop in sorted({j["prop"] for j in js}):
                        j0 = next(j for j in rel if j["prop"] == prop)
                        violations.append((prop, "random run %d (seed %d), line %d: %s" %
                                           (run_no, seed * 1000 + chunk_no, j0["line"], j0["what"]), path))
        done_runs += k
        chunk_no += 1
        if not judge and not jerr:
            try:
                os.remove(trace)
            except OSError:
                pass
    return done_runs, judge_all, violations, err


def run(tier, seed, work_dir):
    """tier: "quick" | "thorough".  Returns the result dict described in the module docstring."""
    t0 = time.time()
    os.makedirs(work_dir, exist_ok=True)
    viol_dir = os.path.join(work_dir, "violations", "mapops")
    shutil.rmtree(viol_dir, ignore_errors=True)
    res = dict(states=0, transitions=0, behaviours=0, failed=0, by_prop={}, random_runs=0, judge=[],
               violations=[], samples=[], nontrivial=0, error=None, secs=0.0)
    errors = []

    berr = _build()
    if berr:
        res["error"] = berr
        res["secs"] = round(time.time() - t0, 1)
        return res

    # 1. model checking + behaviour export
    t = _tlc(tier, work_dir)
    res.update(states=t["states"], transitions=t["transitions"], behaviours=t["behaviours"], tlc_secs=t["tlc_secs"])
    if t["error"]:
        errors.append(t["error"])

    # 2. conformance replay
    if t["behaviours"] > 0:
        p = subprocess.run([EXE, t["replay_file"], "--out", viol_dir], stdout=subprocess.PIPE,
                           stderr=subprocess.PIPE, text=True)
        if p.returncode != 0 or not p.stdout.strip():
            errors.append("mapops replay failed: " + (p.stderr or p.stdout)[-1500:])
        else:
            r = json.loads(p.stdout.strip().splitlines()[-1])
            res.update(failed=r["failed"], by_prop=r["by_prop"], samples=r["samples"], nontrivial=r["nontrivial"])
            for f in r["failures"]:
                res["violations"].append((f["prop"], f["first"], f["path"]))
    elif not t["error"]:
        errors.append("TLC exported no behaviours")
    if res["failed"] == 0 and not errors and tier != "quick" and os.environ.get("MAPOPS_KEEP") != "1":
        try:
            os.remove(t["replay_file"])   # hundreds of MB; reproducible from the spec
        except OSError:
            pass

    # 3. random runs judged by MapMon
    n = 100 if tier == "quick" else 1000
    runs, judge, viols, rerr = _random(n, seed, work_dir, viol_dir)
    res["random_runs"] = runs
    res["judge"] = judge
    res["violations"].extend(viols)
    for j in judge:
        res["by_prop"][j["prop"]] = res["by_prop"].get(j["prop"], 0) + 1
    if rerr:
        errors.append(rerr)

    res["error"] = "; ".join(errors) if errors else None
    res["secs"] = round(time.time() - t0, 1)
    return res


def replay(path):
    """Re-runs one failure file against the current code; True if it still fails."""
    if _build():
        raise RuntimeError("cannot build mapops")
    rec = json.load(open(path))
    if rec.get("kind") == "mapops":
        p = subprocess.run([EXE, "--one", path], stdout=subprocess.PIPE, stderr=subprocess.PIPE, text=True)
        if p.returncode != 0:
            raise RuntimeError("mapops --one failed: " + p.stderr[-1000:])
        return bool(json.loads(p.stdout.strip().splitlines()[-1])["reproduced"])
    if rec.get("kind") == "mapops-random":
        work = os.path.join(VERIF, "work", "mapops_replay_%d" % os.getpid())
        os.makedirs(work, exist_ok=True)
        try:
            trace = os.path.join(work, "one.ndjson")
            p = subprocess.run([EXE, "--one", path, "--out-trace", trace], stdout=subprocess.PIPE,
                               stderr=subprocess.PIPE, text=True)
            if p.returncode != 0:
                raise RuntimeError("mapops --one failed: " + p.stderr[-1000:])
            judge, err = _judge_trace(trace, work, "one")
            if err:
                raise RuntimeError(err)
            return len(judge) > 0
        finally:
            shutil.rmtree(work, ignore_errors=True)
    raise ValueError("not a mapops failure file: %r" % path)


if __name__ == "__main__":
    import sys
    if len(sys.argv) >= 3 and sys.argv[1] == "replay":
        print(replay(sys.argv[2]))
    else:
        tier = sys.argv[1] if len(sys.argv) > 1 else "quick"
        seed = int(sys.argv[2]) if len(sys.argv) > 2 else 1
        wd = sys.argv[3] if len(sys.argv) > 3 else os.path.join(VERIF, "work", "mapops_stage")
        out = run(tier, seed, wd)
        out["samples"] = out["samples"][:1]
        print(json.dumps(out, indent=1)[:6000])
