"""C11 on the repository's own tests: run them with the verif hook writing a snapshot at the end of
every stabilise (INCR_VERIF_TRACE_DIR), reshape the snapshots and let TLC evaluate the Audit
predicates (spec/SnapAudit.tla).   run(tier, seed, work_dir) -> dict ; replay(path) -> bool"""
import glob, json, os, re, shutil, subprocess, time

ROOT = os.path.dirname(os.path.dirname(os.path.abspath(__file__)))
SPEC = os.path.join(ROOT, "spec")
KINDS = {"const": "const", "var": "var", "map": "map", "mwo": "map", "mapref": "map", "lhs": "lhs", "main": "main",
         "expert": "expert", "fold": "fold", "map2": "fold", "map3": "fold", "map4": "fold", "map5": "fold", "map6": "fold"}


def reshape(test, snap):
    nodes = snap["nodes"]
    N = len(nodes)
    e = dict(test=test, n=N, status=snap["status"], num=snap["stab_num"])
    cols = {k: [] for k in ("def", "valid", "val", "recat", "chgat", "setat", "h", "hrch", "hahh", "par", "cip", "pic", "scope",
                            "force", "numh", "nobs", "rhs", "edges", "fstale")}
    rel = []
    for i, nd in enumerate(nodes):
        kind = nd["kind"]
        if kind == "released":
            rel.append(i + 1)
            d = {"k": "const", "ins": []}
            vals = dict(valid=False, val=["none", 0, 0], recat=-1, chgat=-1, setat=-1, h=-1, hrch=-1, hahh=-1, par=[], cip=[-1], pic=[],
                        scope=0, force=False, numh=0, nobs=[], rhs=0, edges=[], fstale=False)
        else:
            k = KINDS[kind]
            d = {"k": k, "ins": [c for c in nd["children"]]}
            if kind == "lhs":
                d["ins"] = [nd["lhs"]]
                d["main"] = max(nd.get("main", 0), 0)
            if kind == "main":
                d["lc"] = nd["lhs_change"]
            if k == "map" and not d["ins"]:
                d["ins"] = [0]
            nh = nd["num_handlers"] - max(nd.get("node_handlers", 0), 0)
            vals = dict(valid=nd["valid"], val=["other", 0, 0] if nd["val"] is not None else ["none", 0, 0],
                        recat=nd["rec_at"], chgat=nd["chg_at"], setat=nd.get("set_at", -1), h=nd["h"], hrch=nd["h_rch"], hahh=nd["h_ahh"],
                        par=nd["parents"], cip=nd["cip"], pic=nd["pic"], scope=max(nd["scope"], 0), force=nd["force_nec"], numh=nh,
                        nobs=nd["observers"], rhs=nd.get("rhs", 0) if kind == "lhs" else 0,
                        edges=[{"child": c} for c in nd.get("edges", [])], fstale=nd.get("force_stale", False))
        cols["def"].append(d)
        for k2, v in vals.items():
            cols[k2].append(v)
    e.update(cols)
    e["rel"] = rel
    q = sorted(((int(h), v) for h, v in snap["rch"]["queues"].items()))
    e["rch"] = [[h, v] for h, v in q]
    e["rchlen"], e["rchlower"], e["rchmax"] = snap["rch"]["len"], snap["rch"]["lower"], snap["rch"]["max_allowed"]
    e["ahhlen"], e["ahhmax"], e["ahhseen"] = snap["ahh"]["len"], snap["ahh"]["max_allowed"], snap["ahh"]["max_seen"]
    e["pinv"] = snap["prop_invalid"]
    obs = snap["observers"]
    e["ostate"] = [o["state"] for o in obs]
    e["onode"] = [o.get("node", 0) for o in obs]
    e["ohandlers"] = [max(o.get("handlers", 0), 0) for o in obs]
    e["becamenec"], e["becameunnec"] = snap["stats"]["became_necessary"], snap["stats"]["became_unnecessary"]
    return e


def run(tier, seed, work_dir):
    t0 = time.time()
    tdir = os.path.join(work_dir, "owntests_traces")
    shutil.rmtree(tdir, ignore_errors=True)
    os.makedirs(tdir)
    env = dict(os.environ, RUSTFLAGS="--cfg cormacrelf_incremental_rs_verif", INCR_VERIF_TRACE_DIR=tdir,
               CARGO_TARGET_DIR=os.path.join(work_dir, "owntests_target"), CARGO_NET_OFFLINE="true")
    p = subprocess.run(["cargo", "test", "--workspace", "--offline", "--no-fail-fast"], cwd="/repo", env=env,
                       stdout=subprocess.PIPE, stderr=subprocess.STDOUT, text=True)
    passed = sum(int(m.group(1)) for m in re.finditer(r"test result: \w+\. (\d+) passed", p.stdout))
    failed = sum(int(m.group(1)) for m in re.finditer(r"test result: \w+\. \d+ passed; (\d+) failed", p.stdout))
    if "error: could not compile" in p.stdout:
        return dict(error="own tests do not compile with the hook on: " + p.stdout[-1500:])
    trace = os.path.join(work_dir, "owntests.ndjson")
    n = 0
    tests = set()
    with open(trace, "w") as out:
        for f in sorted(glob.glob(os.path.join(tdir, "*.ndjson"))):
            for line in open(f):
                try:
                    j = json.loads(line)
                except ValueError:
                    continue
                out.write(json.dumps(reshape(j["test"], j["snap"])) + "\n")
                tests.add(j["test"])
                n += 1
    if n == 0:
        return dict(error="no snapshots recorded from the repository's tests")
    meta = os.path.join(work_dir, "tlc_owntests")
    env2 = dict(os.environ, TRACE=trace, JAVA_TOOL_OPTIONS="-Xss1g -Dtlc2.tool.queue.IStateQueue=StateDeque")
    q = subprocess.run(["timeout", "900", "tlc", "-workers", "1", "-metadir", meta, "-cleanup", "-noGenerateSpecTE",
                        "-config", "SnapAudit.cfg", "SnapAudit.tla"], cwd=SPEC, env=env2,
                       stdout=subprocess.PIPE, stderr=subprocess.STDOUT, text=True)
    shutil.rmtree(meta, ignore_errors=True)
    if "TRACE-DONE" not in q.stdout:
        return dict(error="SnapAudit did not finish: " + q.stdout[-1500:])
    viol = []
    vdir = os.path.join(work_dir, "violations", "C11")
    os.makedirs(vdir, exist_ok=True)
    lines = open(trace).read().splitlines()
    for m in re.finditer(r'<<"JUDGE", (\d+), "([^"]*)", (".*")>>', q.stdout):
        ln, test, what = int(m.group(1)), m.group(2), json.loads(json.loads(m.group(3)))
        path = os.path.join(vdir, f"owntest-{ln}.json")
        json.dump(dict(kind="owntest-snapshot", test=test, failed=what, snapshot=json.loads(lines[ln - 1])), open(path, "w"))
        viol.append(("C11", f"audit {what} failed on the snapshot after a stabilise of existing test {test}", path))
    return dict(states=n + 1, transitions=n, cases=n, nontrivial=len(tests), violations=viol, error=None,
                samples=[{"test": t} for t in sorted(tests)[:3]], secs=round(time.time() - t0, 1),
                own_tests_passed=passed, own_tests_failed=failed, snapshots=n, tests_with_snapshots=len(tests))


def replay(path):
    rec = json.load(open(path))
    r = run("quick", 0, os.path.join(ROOT, "work"))
    return any(rec["test"] in v[1] for v in r.get("violations", []))
