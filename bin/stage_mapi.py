"""Stage "mapi": graph-rewiring operators of incremental-map (C16, C17; panics => C16, counted as C04 too).

    import stage_mapi
    res = stage_mapi.run("quick" | "thorough", seed, work_dir)
    ok  = stage_mapi.replay("<work_dir>/violations/mapi/C16/mapi-S4-0.json")   # True = reproduces

Pipeline:
  1. TLC on spec/MC_MapiGraph.tla (MC_MapiGraph_quick.cfg / MC_MapiGraph.cfg, intended design
     Defects = {}): invariants OpCorrect, BuilderOnlyNewKeys, UnchangedKeysQuiet of the transcribed
     rewiring algorithm for the five builder shapes x map/filter x cutoff eq/fn; exports one REPLAY
     line per maximal behaviour (expected output, builder invocations and per-key closure runs of
     every instance per stabilise).
  2. harness/target/debug/mapi replays every behaviour on the real incr_mapi_, incr_filter_mapi_,
     incr_mapi_cutoff, incr_filter_mapi_cutoff for BTreeMap and im_rc::OrdMap (60 instances, each in
     its own IncrState): output mismatch or panic => C16, call-log mismatch => C17.
  3. mapi --random N: random longer runs recorded as ndjson, judged by spec/MapiMon.tla (outputs
     against MapiDef, logs against CallsExact / RunsQuiet); JUDGE lines are violations
     (JUDGE lines with prop "MODEL" mean the specification is wrong: reported as an error).

Result dict: states, transitions, behaviours, tlc_secs, failed, by_prop, by_shape, random_runs, judge,
violations [(prop, description, replay_path)], known [(prop, description, replay_path, finding)],
samples, nontrivial, error, secs.

Known findings: if /verif/known_findings.json exists, every entry of its "findings" list that has a
"property" (one id or a comma separated list) and a "match" regular expression moves the violations
of that property whose description matches (re.search) from `violations` to `known`.

Environment overrides (used for mutation experiments): MAPI_HARNESS (harness crate dir, default
/verif/harness), MAPI_SPEC (spec dir), MAPI_NO_BUILD=1 (skip cargo build), MAPI_KEEP=1 (keep the
replay file of a clean thorough run), MAPI_KNOWN (path of the known-findings file).
Stdlib only.
"""
import json
import os
import re
import shutil
import subprocess
import time

VERIF = os.path.dirname(os.path.dirname(os.path.abspath(__file__)))
SPEC = os.environ.get("MAPI_SPEC", os.path.join(VERIF, "spec"))
HARNESS = os.environ.get("MAPI_HARNESS", os.path.join(VERIF, "harness"))
EXE = os.path.join(HARNESS, "target", "debug", "mapi")
KNOWN = os.environ.get("MAPI_KNOWN", os.path.join(VERIF, "known_findings.json"))
TLC_WORKERS = os.environ.get("TLC_WORKERS", "8")
JUDGE_ENV = dict(JAVA_TOOL_OPTIONS="-Xss1g -Dtlc2.tool.queue.IStateQueue=StateDeque")
RANDOM_CHUNK = 100  # runs per MapiMon invocation
RANDOM_RUNS = {"quick": 60, "thorough": 400}


def _run(cmd, **kw):
    return subprocess.run(cmd, stdout=subprocess.PIPE, stderr=subprocess.STDOUT, text=True, **kw)


def _build():
    """(Re)build the binary: the path dependencies on /repo make cargo pick up code changes."""
    if os.environ.get("MAPI_NO_BUILD") == "1" and os.path.exists(EXE):
        return None
    p = _run(["cargo", "build", "--offline", "--bin", "mapi"], cwd=HARNESS)
    if p.returncode != 0:
        return "cargo build --bin mapi failed:\n" + p.stdout[-3000:]
    return None


def _known_findings():
    """[(set of property ids, compiled regex, label)] from the known-findings file, if present."""
    out = []
    try:
        data = json.load(open(KNOWN))
    except (OSError, ValueError):
        return out
    for f in data.get("findings", []) if isinstance(data, dict) else []:
        if not isinstance(f, dict) or "property" not in f or "match" not in f:
            continue
        props = f["property"]
        if isinstance(props, str):
            props = [x.strip() for x in props.split(",")]
        try:
            rx = re.compile(f["match"])
        except re.error:
            continue
        out.append((set(props), rx, f.get("id") or f.get("title") or f["match"]))
    return out


def _split_known(violations):
    """Moves violations that match a known finding to a separate list."""
    known_defs = _known_findings()
    keep, known = [], []
    for v in violations:
        prop, desc = v[0], v[1]
        hit = next((lab for props, rx, lab in known_defs if prop in props and rx.search(desc)), None)
        if hit is None:
            keep.append(v)
        else:
            known.append((v[0], v[1], v[2], hit))
    return keep, known


def _tlc(tier, work_dir):
    cfg = "MC_MapiGraph_quick.cfg" if tier == "quick" else "MC_MapiGraph.cfg"
    meta = os.path.join(work_dir, "tlc_mapi")
    out = os.path.join(work_dir, "mapi_tlc.out")
    rep = os.path.join(work_dir, "mapi.replay")
    timeout = 600 if tier == "quick" else 3600
    cmd = ["timeout", str(timeout), "tlc", "-workers", TLC_WORKERS, "-metadir", meta, "-cleanup",
           "-noGenerateSpecTE", "-config", cfg, "MC_MapiGraph.tla"]
    t0 = time.time()
    generated = distinct = nrep = 0
    err = None
    ok = False
    # stream TLC's output: REPLAY lines go to the replay file, everything else to the log
    p = subprocess.Popen(cmd, cwd=SPEC, stdout=subprocess.PIPE, stderr=subprocess.STDOUT, text=True,
                         errors="replace", bufsize=1 << 20)
    with open(out, "w") as f, open(rep, "w") as g:
        for line in p.stdout:
            if line.startswith('<<"REPLAY"'):
                g.write(line)
                nrep += 1
                continue
            if line.startswith("/\\ histJson") or line.startswith("/\\ inst"):
                line = line[:2000] + "\n"   # counterexample states are huge
            f.write(line)
            m = re.match(r"(\d+) states generated, (\d+) distinct states found", line)
            if m:
                generated, distinct = int(m.group(1)), int(m.group(2))
            if line.startswith("Error:") and err is None:
                err = "TLC: " + line.strip()
            if "No error has been found" in line:
                ok = True
    p.wait()
    secs = time.time() - t0
    shutil.rmtree(meta, ignore_errors=True)
    if p.returncode == 124:
        err = f"TLC timed out after {timeout}s"
    elif (p.returncode != 0 or not ok) and err is None:
        err = f"TLC exit code {p.returncode} (see {out})"
    return dict(states=distinct, transitions=generated, behaviours=nrep, replay_file=rep,
                tlc_secs=round(secs, 1), error=err)


def _judge_trace(trace, work_dir, tag):
    """Runs MapiMon on an ndjson trace.  Returns (judge list, error or None)."""
    meta = os.path.join(work_dir, f"tlc_mapimon_{tag}")
    env = dict(os.environ, TRACE=trace, **JUDGE_ENV)
    p = _run(["timeout", "1800", "tlc", "-workers", "1", "-metadir", meta, "-cleanup", "-noGenerateSpecTE",
              "-config", "MapiMon.cfg", "MapiMon.tla"], cwd=SPEC, env=env)
    shutil.rmtree(meta, ignore_errors=True)
    judge, done = [], False
    for line in p.stdout.splitlines():
        if line.startswith('<<"JUDGE"'):
            m = re.match(r'<<"JUDGE", (\d+), (".*")>>$', line)
            if not m:
                continue
            v = json.loads(json.loads(m.group(2)))
            judge.append(dict(prop=v["prop"], what="%s [%s/%s]" % (v["what"], v.get("inst", "?"), v.get("mt", "?")),
                              panic=v["what"].startswith("panic during"), line=int(m.group(1))))
        elif line.startswith('<<"TRACE-DONE"'):
            done = True
    err = None
    if not done:
        outp = os.path.join(work_dir, f"mapimon_{tag}.out")
        open(outp, "w").write(p.stdout)
        err = f"MapiMon did not consume the whole trace {trace} (see {outp}): " + \
              " ".join(l for l in p.stdout.splitlines() if l.startswith("Error") or "TRACE-STUCK" in l)[:600]
    return judge, err


def _random(n, seed, work_dir, viol_dir):
    """Random runs + MapiMon, in chunks.  Returns (runs, judge, violations, error)."""
    judge_all, violations, err = [], [], None
    done_runs = 0
    nfile = 0
    chunk_no = 0
    per_kind = {}   # (prop, shape, panic?) -> number of violation entries reported
    while done_runs < n and err is None:
        k = min(RANDOM_CHUNK, n - done_runs)
        trace = os.path.join(work_dir, f"mapi_random_{chunk_no}.ndjson")
        p = _run([EXE, "--random", str(k), "--seed", str(seed * 1000 + chunk_no), "--out-trace", trace])
        if p.returncode != 0:
            err = "mapi --random failed: " + p.stdout[-1500:]
            break
        judge, jerr = _judge_trace(trace, work_dir, f"r{chunk_no}")
        if jerr:
            err = jerr
        model = [j for j in judge if j["prop"] == "MODEL"]
        if model and err is None:
            err = "MapiMon: the model violates its own invariants on %s line %d" % (trace, model[0]["line"])
        judge = [j for j in judge if j["prop"] != "MODEL"]
        if judge:
            lines = [json.loads(x) for x in open(trace)]
            by_run = {}
            for j in judge:
                run_no = lines[j["line"] - 1].get("run", -1)
                by_run.setdefault(run_no, []).append(j)
            for run_no, js in sorted(by_run.items()):
                first = min(i for i, l in enumerate(lines) if l.get("run") == run_no)
                run_lines = [l for l in lines if l.get("run") == run_no]
                rel = [dict(j, line=j["line"] - first) for j in js]
                for j in js:
                    judge_all.append(dict(j, chunk=chunk_no, run=run_no))
                # one violation per (property, shape, panic or not) of the run; at most 3 per kind overall
                kinds = {}
                for j in rel:
                    shape = j["what"].rsplit("[", 1)[-1][:2]
                    kinds.setdefault((j["prop"], shape, j["panic"]), j)
                new = [(kd, j0) for kd, j0 in sorted(kinds.items()) if per_kind.get(kd, 0) < 3]
                if not new or nfile >= 30:
                    continue
                os.makedirs(viol_dir, exist_ok=True)
                path = os.path.join(viol_dir, f"random-{nfile}.json")
                with open(path, "w") as f:
                    json.dump({"kind": "mapi-random", "lines": run_lines, "judge": rel,
                               "seed": seed * 1000 + chunk_no, "run": run_no}, f)
                    f.write("\n")
                nfile += 1
                for kd, j0 in new:
                    per_kind[kd] = per_kind.get(kd, 0) + 1
                    violations.append((kd[0], "random run %d (seed %d), line %d: %s" %
                                       (run_no, seed * 1000 + chunk_no, j0["line"], j0["what"]), path))
        done_runs += k
        chunk_no += 1
        if not judge and not jerr and not model:
            try:
                os.remove(trace)
            except OSError:
                pass
    return done_runs, judge_all, violations, err


def run(tier, seed, work_dir):
    """tier: "quick" | "thorough".  Returns the result dict described in the module docstring."""
    t0 = time.time()
    os.makedirs(work_dir, exist_ok=True)
    viol_dir = os.path.join(work_dir, "violations", "mapi")
    shutil.rmtree(viol_dir, ignore_errors=True)
    res = dict(states=0, transitions=0, behaviours=0, failed=0, by_prop={}, by_shape={}, random_runs=0, judge=[],
               violations=[], known=[], samples=[], nontrivial=0, error=None, secs=0.0)
    errors = []

    berr = _build()
    if berr:
        res["error"] = berr
        res["secs"] = round(time.time() - t0, 1)
        return res

    # 1. model checking + behaviour export
    t = _tlc(tier, work_dir)
    res.update(states=t["states"], transitions=t["transitions"], behaviours=t["behaviours"], tlc_secs=t["tlc_secs"])
    if t["error"]:
        errors.append(t["error"])

    # 2. conformance replay
    if t["behaviours"] > 0:
        p = subprocess.run([EXE, t["replay_file"], "--out", viol_dir], stdout=subprocess.PIPE,
                           stderr=subprocess.PIPE, text=True)
        if p.returncode != 0 or not p.stdout.strip():
            errors.append("mapi replay failed (exit %s): %s" % (p.returncode, (p.stderr or p.stdout)[-1500:]))
        else:
            r = json.loads(p.stdout.strip().splitlines()[-1])
            res.update(failed=r["failed"], by_prop=r["by_prop"], by_shape=r["by_shape"], samples=r["samples"],
                       nontrivial=r["nontrivial"])
            for f in r["failures"]:
                res["violations"].append((f["prop"], f["first"], f["path"]))
    elif not t["error"]:
        errors.append("TLC exported no behaviours")
    if res["failed"] == 0 and not errors and tier != "quick" and os.environ.get("MAPI_KEEP") != "1":
        try:
            os.remove(t["replay_file"])   # reproducible from the spec
        except OSError:
            pass

    # 3. random runs judged by MapiMon
    runs, judge, viols, rerr = _random(RANDOM_RUNS.get(tier, 60), seed, work_dir, viol_dir)
    res["random_runs"] = runs
    res["judge"] = judge[:200]
    res["judge_total"] = len(judge)
    res["violations"].extend(viols)
    for j in judge:
        res["by_prop"][j["prop"]] = res["by_prop"].get(j["prop"], 0) + 1
        if j["panic"]:
            res["by_prop"]["C04"] = res["by_prop"].get("C04", 0) + 1
    if rerr:
        errors.append(rerr)

    res["violations"], res["known"] = _split_known(res["violations"])
    res["error"] = "; ".join(errors) if errors else None
    res["secs"] = round(time.time() - t0, 1)
    return res


def replay(path):
    """Re-runs one failure file against the current code; True if it still fails."""
    if _build():
        raise RuntimeError("cannot build mapi")
    rec = json.load(open(path))
    if rec.get("kind") == "mapi":
        p = subprocess.run([EXE, "--one", path], stdout=subprocess.PIPE, stderr=subprocess.PIPE, text=True)
        if p.returncode != 0:
            raise RuntimeError("mapi --one failed: " + p.stderr[-1000:])
        return bool(json.loads(p.stdout.strip().splitlines()[-1])["reproduced"])
    if rec.get("kind") == "mapi-random":
        work = os.path.join(VERIF, "work", "mapi_replay_%d" % os.getpid())
        os.makedirs(work, exist_ok=True)
        try:
            trace = os.path.join(work, "one.ndjson")
            p = subprocess.run([EXE, "--one", path, "--out-trace", trace], stdout=subprocess.PIPE,
                               stderr=subprocess.PIPE, text=True)
            if p.returncode != 0:
                raise RuntimeError("mapi --one failed: " + p.stderr[-1000:])
            judge, err = _judge_trace(trace, work, "one")
            if err:
                raise RuntimeError(err)
            return any(j["prop"] != "MODEL" for j in judge)
        finally:
            shutil.rmtree(work, ignore_errors=True)
    raise ValueError("not a mapi failure file: %r" % path)


if __name__ == "__main__":
    import sys
    if len(sys.argv) >= 3 and sys.argv[1] == "replay":
        print(replay(sys.argv[2]))
    else:
        tier = sys.argv[1] if len(sys.argv) > 1 else "quick"
        seed = int(sys.argv[2]) if len(sys.argv) > 2 else 1
        wd = sys.argv[3] if len(sys.argv) > 3 else os.path.join(VERIF, "work", "mapi_stage")
        out = run(tier, seed, wd)
        out["samples"] = len(out["samples"])
        out["judge"] = out["judge"][:3]
        out["n_violations"], out["n_known"] = len(out["violations"]), len(out["known"])
        out["violations"] = out["violations"][:12]
        out["known"] = out["known"][:12]
        print(json.dumps(out, indent=1))
