"""TLC families (constants of spec/MC.tla) and the per-property plan."""

# repaired designs in effect in /repo (must mirror the code; see known_findings.json "fixed")
FIX = ["direct_guard", "mapref_reset", "unsub_decr", "update_changed", "ahh_weak", "max_height",
       "edge_cb_parent", "swap_same_child", "decr_invalid"]

BASE = dict(K=2, Ctors=[], Fs1=["id"], Fs2=["add"], Cutoffs=[], RecipeKinds=[], Ops=["set"], Effs=[],
            MaxVars=1, MaxNodes=3, MaxObs=2, MaxActs=8, MaxRounds=2, MaxH=8, MaxSubs=0, Late=False)


def fam(**kw):
    d = dict(BASE)
    d.update(kw)
    return d


FAMILIES = {
    # var / map / map2 with every creation + observation order
    "core_s": fam(Ctors=["var", "map", "map2"], Fs1=["id", "inc", "const0"], MaxNodes=3, MaxActs=8),
    "core_m": fam(Ctors=["var", "const", "map", "map2", "fold"], Fs1=["id", "inc", "const0"],
                  MaxVars=2, MaxNodes=4, MaxActs=9, MaxRounds=3),
    # one bind, fresh-map recipe over every existing node
    "bind_s": fam(Ctors=["var", "map", "bind"], RecipeKinds=["map"], MaxNodes=5, MaxActs=10, MaxH=16),
    "bind_m": fam(Ctors=["var", "map", "bind"], RecipeKinds=["map"], MaxNodes=5, MaxActs=11, MaxH=16),
}

PROPS = {
    "C01": dict(families=dict(quick=["core_s", "bind_s"], thorough=["core_m", "bind_m"])),
    "C15": dict(stage_modules=["stage_mapops"]),
    "C17": dict(stage_modules=["stage_mapops"]),
    "C18": dict(stage_modules=["stage_symdiff"], stage_prop="C18"),
}
