"""TLC families (constants of spec/MC.tla) and the per-property plan."""

# repaired designs in effect in /repo (must mirror the code; see known_findings.json "fixed")
FIX = ["direct_guard", "mapref_reset", "unsub_decr", "update_changed", "ahh_weak", "max_height",
       "edge_cb_parent", "swap_same_child", "decr_invalid"]

BASE = dict(K=2, Ctors=[], Fs1=["id"], Fs2=["add"], Cutoffs=[], RecipeKinds=[], Ops=["set"], Effs=[],
            MaxVars=1, MaxNodes=3, MaxObs=2, MaxActs=8, MaxRounds=2, MaxH=8, MaxSubs=0, Late=False)


def fam(**kw):
    d = dict(BASE)
    d.update(kw)
    return d


FAMILIES = {
    # var / map / map2 with every creation + observation order
    "core_s": fam(Ctors=["var", "map", "map2"], Fs1=["id", "inc", "const0"], MaxNodes=3, MaxActs=8),
    "core_m": fam(Ctors=["var", "const", "map", "map2", "fold"], Fs1=["id", "inc", "const0"],
                  MaxVars=2, MaxNodes=4, MaxActs=9, MaxRounds=3),
    # one bind, fresh-map recipe over every existing node
    "bind_s": fam(Ctors=["var", "map", "bind"], RecipeKinds=["map"], MaxNodes=5, MaxActs=9, MaxH=16),
    "bind_m": fam(Ctors=["var", "map", "bind"], RecipeKinds=["map"], MaxNodes=5, MaxActs=11, MaxH=16),
    # bind with pre-existing right-hand sides / constants, two vars
    "pick_s": fam(Ctors=["var", "map", "bind"], RecipeKinds=["pick", "const"], MaxVars=2, MaxNodes=4, MaxActs=9, MaxH=16),
    # leaked inner nodes observed from outside (C03 invalidity)
    "leak_s": fam(Ctors=["var", "map", "bind"], RecipeKinds=["leakmap"], MaxNodes=4, MaxObs=2, MaxActs=9, MaxRounds=3, MaxH=16),
    # nested bind
    "nest_s": fam(Ctors=["var", "bind"], RecipeKinds=["nested"], MaxVars=2, MaxNodes=4, MaxActs=8, MaxRounds=3, MaxH=16),
    # map_ref / map_with_old / pairs under necessity changes
    "ref_s": fam(Ctors=["pvar", "mapref", "pmap"], Fs1=["id", "fst"], MaxNodes=3, MaxObs=2, MaxActs=8, MaxRounds=3),
    "mwo_s": fam(Ctors=["var", "mwo", "map", "mapref"], Fs1=["id", "const0"], MaxNodes=3, MaxObs=2, MaxActs=8, MaxRounds=3),
    # map_with_old -> map_ref -> dependant (the projection's dependants only learn of changes through child_changed)
    "mwo4_s": fam(Ctors=["var", "mwo", "mapref", "map"], Fs1=["id"], MaxNodes=4, MaxObs=1, MaxActs=8, MaxRounds=2),
    # cutoffs on every node incl. vars, K = 3 so that non-equal suppression exists
    "cut_s": fam(K=3, Ctors=["var", "map", "cutoff"], Fs1=["id", "min1"], Cutoffs=["never", "always", "min1", "le"],
                 MaxNodes=3, MaxObs=1, MaxActs=8, MaxRounds=3),
    # observers, clones, subscriptions
    "obs_s": fam(Ctors=["var", "map"], Fs1=["id", "const0"], MaxNodes=2, MaxObs=2, MaxSubs=2, MaxActs=9, MaxRounds=3),
    # observer clones, handlers that drop their own observer / write vars / subscribe elsewhere
    "obsfx_s": fam(Ctors=["var", "map", "clone"], Fs1=["id"], Effs=["h_drop", "h_set", "h_sub"], MaxNodes=2, MaxObs=2, MaxSubs=2,
                   MaxActs=8, MaxRounds=3),
    # bind whose new right-hand side is built on its old one (and back)
    "bindalt_s": fam(Ctors=["var", "map", "bind"], RecipeKinds=["altmap"], MaxVars=1, MaxNodes=4, MaxObs=1, MaxActs=9, MaxRounds=3, MaxH=16),
    # var write operations
    "var_s": fam(Ctors=["var", "map"], Fs1=["id"], Ops=["set", "update", "modify", "replace", "replace_with"],
                 MaxNodes=3, MaxObs=2, MaxActs=9, MaxRounds=3),
    # user functions that panic at their k-th run: crash-point enumeration (C13)
    "panic_s": fam(Ctors=["var", "map", "map2"], Fs1=["id"], Effs=["panic", "h_panic"], MaxNodes=3, MaxObs=2, MaxSubs=1, MaxActs=7, MaxRounds=3),
    # user functions that write vars / read observers while stabilising (C08, C07)
    "eff_s": fam(Ctors=["var", "map", "drop"], Fs1=["id"], Effs=["set", "read", "set_drop"], Ops=["set", "update"],
                 MaxVars=2, MaxNodes=3, MaxObs=1, MaxActs=6, MaxRounds=3),
    # ownership: every order of dropping handles / vars / observers around stabilises (C12)
    "own_s": fam(Ctors=["var", "map", "map2", "drop"], Fs1=["id"], MaxVars=2, MaxNodes=3, MaxObs=1, MaxActs=8, MaxRounds=3),
    # a subscription handler that drops its own (last) observer handle, with the node's handle dropped too:
    # the node must be released afterwards (one-shot subscriptions must not leak the subgraph)
    "ownfx_s": fam(Ctors=["var", "map", "drop", "clone"], Fs1=["id"], Effs=["h_drop"], MaxVars=1, MaxNodes=2, MaxObs=1, MaxSubs=1,
                   MaxActs=8, MaxRounds=3),
    "ownbind_s": fam(Ctors=["var", "bind", "drop"], RecipeKinds=["map", "pick"], MaxVars=2, MaxNodes=4, MaxObs=1, MaxActs=9, MaxRounds=3, MaxH=16),
    # weak_memoize_fn called from bind closures (C20)
    "memo_s": fam(Ctors=["var", "memo", "bind", "drop"], RecipeKinds=["memo"], Fs2=["add"], MaxVars=2, MaxNodes=4,
                  MaxObs=1, MaxActs=8, MaxRounds=3, MaxH=16),
    # height limit: chains around the limit, set_max_height_allowed up and down (C19)
    "height_s": fam(Ctors=["var", "map", "map2", "setmaxh", "limits"], Fs1=["id"], MaxNodes=3, MaxObs=2, MaxActs=8,
                    MaxRounds=2, MaxH=2, invariants=["NoPanic", "InvObsCorrect", "InvAudit", "InvHeightExact"]),
    # cycles closed through a bind, foreign-state rhs, nested stabilise (C19)
    "cycle_s": fam(Ctors=["var", "nvar", "map", "refbind", "cyclic", "limits"], Fs1=["id"], MaxVars=2, MaxNodes=5, MaxObs=1,
                   MaxActs=9, MaxRounds=2, MaxH=16),
    "misuse_s": fam(Ctors=["var", "map", "bind"], RecipeKinds=["foreign", "const"], Fs1=["id"], Effs=["stabilise"],
                    MaxNodes=4, MaxObs=1, MaxActs=8, MaxRounds=2, MaxH=16),
    # directed exhaustive families: fixed program (spec/MC.tla Prog*), all histories
    "p_cutreobs": fam(K=3, Prog="ProgCutReobs", Ops=["set"], MaxVars=1, MaxNodes=3, MaxObs=3, MaxActs=12, MaxRounds=4),
    "p_bindtall": fam(K=3, Prog="ProgBindTall", Ops=["set"], MaxVars=3, MaxNodes=9, MaxObs=2, MaxActs=14, MaxRounds=2, MaxH=16),
    "p_grow": fam(K=3, Prog="ProgGrow", Ops=["set"], MaxVars=2, MaxNodes=5, MaxObs=1, MaxActs=12, MaxRounds=4, MaxH=16),
    "p_refcut": fam(K=3, Prog="ProgRefCut", Ops=["set"], MaxVars=1, MaxNodes=4, MaxObs=2, MaxActs=10, MaxRounds=4),
    "p_update": fam(Prog="ProgUpdateOther", Ops=["set"], MaxVars=2, MaxNodes=3, MaxObs=2, MaxActs=8, MaxRounds=2),
    "p_xsum": fam(K=3, Prog="ProgXSum", Ops=["set"], MaxVars=2, MaxNodes=4, MaxObs=2, MaxActs=11, MaxRounds=4, MaxH=16),
    "p_xcell": fam(Prog="ProgXCell", Ops=["set"], MaxVars=2, MaxNodes=6, MaxObs=2, MaxActs=12, MaxRounds=4, MaxH=16),
    "p_memo": fam(Prog="ProgMemo", Ops=["set"], MaxVars=2, MaxNodes=6, MaxObs=2, MaxActs=13, MaxRounds=3, MaxH=16),
    "p_heightbind": fam(Prog="ProgHeightBind", Ctors=["limits"], Ops=["set"], MaxVars=2, MaxNodes=8, MaxObs=2, MaxActs=12,
                        MaxRounds=3, MaxH=5),
    "p_scopecycle": fam(Prog="ProgScopeCycle", Ctors=["cyclic", "limits"], Ops=["set"], MaxVars=2, MaxNodes=8, MaxObs=2, MaxActs=10,
                        MaxRounds=3, MaxH=16),
    "p_subs": fam(Prog="ProgSubs", Ops=["set"], MaxVars=1, MaxNodes=1, MaxObs=2, MaxSubs=3, MaxActs=10, MaxRounds=3),
    # shapes taken from the third round of seeded changes (DESIGN 12.11)
    "p_depcut": fam(Prog="ProgDepCut", Ops=["set"], MaxVars=1, MaxNodes=4, MaxObs=3, MaxActs=12, MaxRounds=3),
    "p_nestshallow": fam(Prog="ProgNestShallow", Ops=["set"], MaxVars=3, MaxNodes=6, MaxObs=1, MaxActs=12, MaxRounds=3, MaxH=16),
    "p_leakinv": fam(Prog="ProgLeakInv", Ops=["set"], MaxVars=2, MaxNodes=5, MaxObs=2, MaxActs=13, MaxRounds=3, MaxH=16),
    "p_xsumshared": fam(K=3, Prog="ProgXSumShared", Ops=["set"], MaxVars=2, MaxNodes=5, MaxObs=2, MaxActs=11, MaxRounds=3, MaxH=16),
    "p_xsumctl": fam(K=2, Prog="ProgXSumCtl", Ops=["set"], MaxVars=1, MaxNodes=5, MaxObs=3, MaxActs=12, MaxRounds=3, MaxH=16),
    # node-level on_update handlers (Incr::on_update): counters in the audit, deliveries as conformance
    "onupd_s": fam(Ctors=["var", "map"], Fs1=["id", "const0"], Effs=["onupdate"], MaxNodes=2, MaxObs=2, MaxActs=8, MaxRounds=3),
    # crash points other than node functions: bind closure / cutoff function / expert observability callback
    "p_boom": fam(Prog="ProgBoom", Ops=["set"], Cutoffs=["boom"], RecipeKinds=["boom"], MaxVars=1, MaxNodes=7, MaxObs=2, MaxActs=11,
                  MaxRounds=4, MaxH=16),
    "p_xarm": fam(Prog="ProgXArm", Ops=["set"], Effs=["xarm"], MaxVars=1, MaxNodes=5, MaxObs=2, MaxActs=11, MaxRounds=4, MaxH=16),
    "p_panic": fam(Prog="ProgPanic", Ops=["set"], Effs=["panic", "h_panic"], MaxVars=1, MaxNodes=2, MaxObs=2, MaxSubs=2, MaxActs=10, MaxRounds=4),
    "p_xjoin": fam(Prog="ProgXJoin", Ops=["set"], MaxVars=2, MaxNodes=5, MaxObs=2, MaxActs=11, MaxRounds=4, MaxH=16),
    # expert constructions
    "xjoin_s": fam(Ctors=["var", "nvar", "xjoin"], MaxVars=3, MaxNodes=5, MaxObs=1, MaxActs=9, MaxRounds=3, MaxH=16),
    "xsum_s": fam(K=3, Ctors=["var", "xsum"], MaxVars=2, MaxNodes=4, MaxObs=1, MaxActs=8, MaxRounds=3, MaxH=16),
}

# thorough variants: one more API action (and a longer TLC timeout) unless defined explicitly
for _n in [n for n in list(FAMILIES) if n.endswith("_s")]:
    _m = _n[:-2] + "_m"
    if _m not in FAMILIES:
        _d = dict(FAMILIES[_n]); _d["MaxActs"] += 1; _d["timeout"] = 3000
        FAMILIES[_m] = _d
FAMILIES["pick_q"] = dict(FAMILIES["pick_s"], MaxActs=8)
for _n in [n for n in list(FAMILIES) if n.startswith("p_")]:
    _d = dict(FAMILIES[_n]); _d["MaxActs"] += 2; _d["MaxRounds"] += 1; _d["timeout"] = 3000
    FAMILIES[_n + "_m"] = _d
# keep the exported sample of behaviours around 50-80k per family (TLC still visits every state)
for _n, _mod in dict(core_s=4, bind_s=6, obs_s=5, p_xsum=5, panic_s=8, cycle_s=4, p_bindtall=3, ownbind_s=10, memo_s=3,
                     pick_q=8, pick_s=12, own_s=5, ref_s=7, leak_s=4, nest_s=5, height_s=2, xjoin_s=5, mwo_s=11, mwo4_s=6,
                     obsfx_s=5, xsum_s=2, eff_s=2, p_cutreobs=9, p_leakinv=5, p_xsumshared=4, p_xsumctl=6, p_depcut=5, cut_s=5, p_xcell=4, p_memo=2, misuse_s=1, bindalt_s=1,
                     p_xjoin=2).items():
    FAMILIES[_n]["ExportMod"] = _mod
# thorough variants explore ~5-10x more states: sample accordingly
for _n in list(FAMILIES):
    if _n.endswith("_m") and "ExportMod" not in FAMILIES[_n]:
        _base = _n[:-2] + "_s" if _n[:-2] + "_s" in FAMILIES else _n[:-2]
        FAMILIES[_n]["ExportMod"] = 8 * FAMILIES.get(_base, {}).get("ExportMod", 1)
FAMILIES["pick_m"]["ExportMod"] = 60


# thorough only: TLC simulation (random walks, every invariant evaluated in every visited state) over the union of
# the constructors with bounds far beyond exhaustive reach; each walk is exported and replayed / judged
FAMILIES["sim_engine"] = fam(K=3, Ctors=["var", "pvar", "const", "map", "pmap", "map2", "fold", "mapref", "mwo", "zip", "dependon",
                                        "bind", "cutoff", "drop", "clone"],
                             Fs1=["id", "inc", "const0", "min1", "fst", "snd", "dup", "halfp"], Fs2=["add", "max"],
                             Cutoffs=["never", "always", "min1", "le"], RecipeKinds=["const", "map", "leakmap", "nested", "altchain", "altmap"],
                             Ops=["set", "update", "modify", "replace", "replace_with"], Effs=["set", "read", "h_set"],
                             MaxVars=3, MaxNodes=9, MaxObs=4, MaxSubs=3, MaxActs=30, MaxRounds=8, MaxH=32, Late=True,
                             simulate=3000, depth=400, timeout=1500)
FAMILIES["sim_expert"] = fam(K=3, Ctors=["var", "nvar", "map", "xjoin", "xsum", "drop"], Fs1=["id", "inc"],
                             MaxVars=4, MaxNodes=9, MaxObs=3, MaxActs=30, MaxRounds=8, MaxH=32, Late=True,
                             simulate=3000, depth=400, timeout=1500)


def plan(*names, sim=None):
    """quick = the named families; thorough = their larger variants (+ a TLC simulation family)"""
    d = _plan(*names)
    if sim:
        d["thorough"].append(sim)
    return d


def _big(n):
    base, at, prof = n.partition("@")
    big = base[:-2] + "_m" if base.endswith(("_s", "_q")) else (base + "_m" if base.startswith("p_") else base)
    return big + at + prof


def _plan(*names):
    return dict(quick=list(names), thorough=[_big(n) for n in names])


RND = dict(quick=48, thorough=600, len=40)

PROPS = {
    "C01": dict(families=plan("core_s", "ref_s", "pick_q", "mwo4_s", "p_depcut", sim="sim_engine"), random=RND),
    "C02": dict(random=RND, families=plan("bind_s", "nest_s", "p_bindtall", "p_grow", sim="sim_engine")),
    "C03": dict(random=RND, families=plan("leak_s", "bind_s", "p_nestshallow", "p_leakinv", sim="sim_engine")),
    "C04": dict(families=plan("leak_s", "xjoin_s", "obsfx_s", "leak_s@release", "xjoin_s@release", sim="sim_engine"),
                random=dict(quick=48, thorough=600, len=40)),
    "C05": dict(random=RND, families=plan("obs_s", "obsfx_s", "pick_q", "p_leakinv", sim="sim_engine")),
    "C06": dict(random=RND, families=plan("cut_s", "mwo4_s", "p_cutreobs", "p_refcut", sim="sim_engine")),
    "C07": dict(random=RND, families=plan("obs_s", "eff_s", "p_update", sim="sim_engine")),
    "C08": dict(random=RND, families=plan("var_s", "eff_s", "obsfx_s", "p_update", sim="sim_engine")),
    "C09": dict(random=RND, families=plan("obs_s", "obsfx_s", "p_subs", sim="sim_engine")),
    "C10": dict(random=RND, families=plan("obs_s", "obsfx_s", "p_subs", sim="sim_engine")),
    # thorough additionally audits the snapshots of the repository's own 74 tests (stage_owntests)
    "C11": dict(random=RND, families=plan("obs_s", "bind_s", "bindalt_s", "bindalt_s@release", "onupd_s", sim="sim_engine"), stage_modules_thorough=["stage_owntests"]),
    # in the families listed under after_drop a wrong value / broken bookkeeping in a history that dropped a handle
    # earlier is C12's business too ("... in any order ... without affecting values of the remaining graph")
    "C12": dict(random=RND, families=plan("own_s", "ownbind_s", "ownfx_s", "obsfx_s", "eff_s", "p_xsumshared", sim="sim_engine"),
                after_drop=["p_xsumshared", "p_xsumshared_m"]),
    "C13": dict(families=plan("panic_s", "p_panic", "p_boom", "p_xarm"), profiles=["debug", "release"]),
    "C14": dict(families=plan("xjoin_s", "xsum_s", "p_xsum", "p_xjoin", "p_xcell", "p_xsumshared", "p_xsumctl", sim="sim_expert")),
    "C15": dict(stage_modules=["stage_mapops"]),
    # the per-key node mechanism (cell + make_stale under connect/disconnect) is also explored at engine level
    "C16": dict(stage_modules=["stage_mapi"], families=plan("p_xcell"), retag={"C14": "C16"}),
    "C17": dict(stage_modules=["stage_mapops", "stage_mapi"]),
    "C18": dict(stage_modules=["stage_symdiff"], stage_prop="C18"),
    "C19": dict(families=plan("height_s", "misuse_s", "cycle_s", "p_heightbind", "p_scopecycle"), profiles=["debug", "release"]),
    "C20": dict(families=plan("memo_s", "p_memo")),
}
