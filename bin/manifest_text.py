HOOK_COMMITS = ["24ebccd", "b7760ab"]
NOT_APPLICABLE = {}
_ENGINE_NOTE = ("Trusted base: TLC, the faithfulness of spec/Incr.tla to the Rust code (itself checked on every run by snapshot-equality "
                "conformance of recorded traces, binding C), the harness interpreter, the finite function/value families of DESIGN.md 3.2. "
                "Exhaustive only within the family bounds recorded in the evidence file.")
TEXT = {
    "C01": dict(technique="TLA+ engine spec + TLC invariant ObsCorrect; behaviour replay and TLC trace judge against the Rust code",
                text="TLC checks ObsCorrect (every in-use observer reads Eval(definition, variable values at stabilise start)) in every state of all programs and histories of the bounded families; every exported behaviour is replayed on the real crate and compared with the reference prediction after every action; recorded traces are judged by TLC (IncrTrace) including full engine-snapshot equality.",
                note=_ENGINE_NOTE),
    "C15": dict(engine="incr-map-specs", technique="TLA+ spec MapOps (operator step functions) + TLC; behaviours replayed on BTreeMap/Rc<BTreeMap>/OrdMap; TLC monitor MapMon on random traces",
                text="TLC checks OpCorrect/NoSpuriousChange for all edit sequences within bounds over 11 operator instances; every exported behaviour is replayed on every map type; random longer runs are judged by MapMon.",
                note="Trusted base: TLC, MapOps.tla transcription of the step functions, harness mapops binary; symmetric_fold treated abstractly here (decided by C18)."),
    "C17": dict(engine="incr-map-specs", technique="TLA+ spec MapOps invariant Proportional + TLC; call logs of instrumented user functions compared on replay; MapMon on random traces",
                text="TLC checks Proportional (user-function calls only for keys that differ, once per key and role, except initialise/empty) for all bounded edit sequences; the real operators' call logs are compared with the predicted multisets on every map type.",
                note="Covers the diff-based operators; per-key graph operators (incr_mapi_) are covered by the MapiGraph stage when built."),
    "C18": dict(engine="incr-map-specs", technique="TLA+ transcription of the merge/diff iterator machines (SymDiff.tla) + TLC over all map pairs; one implementation test per enumerated case; SymDiffMon on random maps",
                text="TLC explores every peek/advance/fused path of MergeOnce, MergeOnceWith, SymmetricDiff and SymmetricDiffOwned over all 729 pairs of maps over 3 keys and the diff-stream merges, checking equality with the set-level definition; every case is executed on the real symmetric_fold / incr_merge for BTreeMap, Rc<BTreeMap>, OrdMap.",
                note="Trusted base: TLC, SymDiff.tla transcription, harness symdiff binary. OrdMap::diff is third-party and only covered black-box."),
}
