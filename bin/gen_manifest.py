#!/usr/bin/env python3
"""Regenerates /verif/MANIFEST.json from bin/families.py (PROPS) and bin/manifest_text.py."""
import json, os, sys
ROOT = os.path.dirname(os.path.dirname(os.path.abspath(__file__)))
sys.path.insert(0, os.path.join(ROOT, "bin"))
from families import PROPS
from manifest_text import TEXT, NOT_APPLICABLE, HOOK_COMMITS

props = [json.loads(l) for l in open(os.path.join(ROOT, "properties.jsonl"))]
checks = []
for p in props:
    pid = p["id"]
    if pid not in PROPS or pid not in TEXT:
        continue
    t = TEXT[pid]
    checks.append({
        "property_id": pid,
        "quick_cmd": f"bin/check {pid} quick",
        "thorough_cmd": f"bin/check {pid} thorough",
        "evidence_file": f"/verif/evidence/{pid}.json",
        "replay_cmd_template": "bin/check replay {path}",
        "engine": t.get("engine", "incr-engine-spec"),
        "level_claimed": {"category": t.get("category", "model_checking"), "text": t["text"], "design_ref": t.get("design_ref", "DESIGN.md section 6")},
        "level_note": t["note"],
        "technique": t["technique"],
    })
claimed = {c["property_id"] for c in checks}
na = [{"property_id": p["id"], "reason": NOT_APPLICABLE.get(p["id"], "check not built yet (build in progress; DESIGN.md section 11)")}
      for p in props if p["id"] not in claimed]
m = {
    "version": 1,
    "setup_cmd": "cd /verif/harness && (test -f Cargo.lock || cp /repo/Cargo.lock Cargo.lock) && cargo build --offline --bins && cargo build --offline --release --bin replay --bin record",
    "hooks": {
        "guard": "cormacrelf_incremental_rs_verif",
        "enable": "rustflags --cfg cormacrelf_incremental_rs_verif in /verif/harness/.cargo/config.toml (the harness builds /repo as a path dependency with the guard on)",
        "baseline_off_cmd": "cd /repo && cargo test --workspace --no-fail-fast --offline",
        "source_commits": HOOK_COMMITS,
        "add_only": True,
    },
    "engines": [
        {"name": "incr-engine-spec", "path": "/verif/spec/Incr.tla", "serves_properties": [c["property_id"] for c in checks if c["engine"] == "incr-engine-spec"],
         "kind_free_text": "TLA+ engine spec (Incr/IncrRef), TLC families (MC.tla), behaviour replay (harness replay) and TLC trace judge (IncrTrace.tla) over traces recorded from the real code"},
        {"name": "incr-map-specs", "path": "/verif/spec/MapOps.tla", "serves_properties": [c["property_id"] for c in checks if c["engine"] == "incr-map-specs"],
         "kind_free_text": "TLA+ specs of incremental-map (MapOps, SymDiff, MapiGraph) with TLC case/behaviour export replayed on the real operators and TLC monitors over random traces"},
    ],
    "checks": checks,
    "not_applicable": na,
    "notes": "All checks rebuild the harness against /repo's working tree. Exit 0 ok / 1 VIOLATION / 2 tool error. See DESIGN.md section 7.",
}
json.dump(m, open(os.path.join(ROOT, "MANIFEST.json"), "w"), indent=1)
print("checks:", sorted(claimed), "not_applicable:", [x["property_id"] for x in na])
